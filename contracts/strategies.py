"""C18 - built-in strategies: total, inside their envelopes (extended-real float model, exact arithmetic A1).
Also the legacy-signature adapter of C05 and the honouring half of C20 (retry_after_or)."""
from __future__ import annotations

import subprocess

import z3

from pyvc import ops, stdlib
from pyvc.harness import T, Task, call_catch, fbool, fint, fopt, freal, fref, fstr, fxfloat, xfloat_wf
from pyvc.interp import LoopSpec
from pyvc.interp_expr import PyRaise
from pyvc.ops import DBL_MAX_R, rterm, term, to_sfloat
from pyvc.path import Unsupported
from pyvc.values import (FIN, NAN, NINF, PINF, BoundV, ClassV, DequeV, EnumVal, EnvFn, ExtV, FuncV, GenExp, LockV, Obj,
                         SFloat, SOpt, Sym, fresh_name)

M = "redress.strategies"
P = "C18"

POW = {2.0: (z3.Function("pow_2_0", z3.IntSort(), z3.RealSort()), 1024),
       1.5: (z3.Function("pow_1_5", z3.IntSort(), z3.RealSort()), 1751)}


def finite(x: SFloat):
    return x.k == FIN


def fin_param(name, lo=None):
    x = SFloat(z3.IntVal(FIN), z3.Real(fresh_name(name)))
    return x


def install(it):
    stdlib.install_clock(it)
    stdlib.install_math(it)

    def uniform(it_, args, kwargs, node):
        a, b = to_sfloat(args[0]), to_sfloat(args[1])
        r = z3.Real(fresh_name("u"))
        it_.path.assume(z3.And(r >= 0, r < 1))
        it_.path.ghost.setdefault("draws", []).append(r)
        rr = SFloat(z3.IntVal(FIN), r)
        # CPython: a + (b - a) * random()
        return ops.xf_add(a, ops.xf_mul(ops.xf_add(b, a, sub=True), rr))

    it.ext_models["random.uniform"] = uniform
    stdlib.trusted("random.uniform", "uniform(a, b) == a + (b - a) * r for some 0 <= r < 1 (CPython's definition), evaluated in the float model")

    def powm(it_, a, b, node):
        if not (isinstance(a, float) and a in POW):
            raise Unsupported(f"pow base {a!r}")
        f, thr = POW[a]
        n = term(b)
        if it_.path.branch(n >= thr):
            it_.raise_builtin("OverflowError", node)
        it_.path.ghost.setdefault("pow_terms", []).append(n)
        p = f(n)
        # facts about g**n for 1 <= n < threshold (g > 1): at least g, finite double
        it_.path.assume(z3.Implies(n >= 1, z3.And(p >= ops.rv(a), p <= DBL_MAX_R)))
        it_.path.assume(z3.Implies(n <= 0, z3.And(p > 0, p <= 1)))
        return SFloat(z3.IntVal(FIN), p)

    it.ext_models["pow"] = powm
    stdlib.trusted("float ** int", "g ** n for g in {2.0, 1.5}: an uninterpreted positive real pow_g(n) >= g for n >= 1; raises OverflowError "
                                   "iff n >= 1024 (g=2.0) / 1751 (g=1.5) - thresholds witnessed natively at start-up")


K_EXP = f"{M}:_exp_cap"


def exp_cap_spec(g):
    """while remaining > 0 and 0.0 < cap < max_s: step = min(remaining, 256); cap *= factor**step; remaining -= step

    INV: 0 <= remaining <= attempt and
         (cap finite, >= 0, cap * g^remaining == base_s * g^attempt)  or  (cap == +inf and base_s * g^attempt > DBL_MAX)
    The multiplicativity instance g^step * g^(remaining-step) == g^remaining is supplied to the solver as an
    axiom instance of the pow model (trusted arithmetic fact), as are g^0 == 1 and g^n >= 1."""
    POWF = POW[g][0]

    def params(env):
        a = env.func.node.args
        names = [p.arg for p in a.args]
        return [env.lookup(n) for n in names]  # base_s, factor, attempt, max_s

    def setup(it, env):
        base, factor, attempt, max_s = params(env)
        return {"base": to_sfloat(base), "attempt": term(attempt), "max_s": to_sfloat(max_s), "seen": []}

    def locals_of(it, env):
        # the two loop-carried locals are the only names assigned before the loop
        assigned = [n for n in env.vars if n not in [p.arg for p in env.func.node.args.args]]
        cap = rem = None
        for n in assigned:
            v = env.vars[n]
            if isinstance(v, SFloat) or isinstance(v, float) or (isinstance(v, Sym) and v.ty == "real"):
                cap = v if cap is None else cap
            elif isinstance(v, int) or (isinstance(v, Sym) and v.ty == "int"):
                rem = v if rem is None else rem
        return cap, rem

    def inv(it, env, idx, ctx):
        cap, rem = ctx.get("names") and (env.vars[ctx["names"][0]], env.vars[ctx["names"][1]]) or locals_of(it, env)
        if "names" not in ctx:
            pars = [p.arg for p in env.func.node.args.args]
            ctx["names"] = [n for n in env.vars if env.vars[n] is cap and n not in pars][:1] + [
                n for n in env.vars if env.vars[n] is rem and n not in pars][:1]
        c = to_sfloat(cap)
        n = term(rem)
        base, att = ctx["base"], ctx["attempt"]
        true_val = base.v * POWF(att)
        # axiom instances of the pow model for the exponents in play
        for prev in ctx["seen"]:
            it.path.assume(z3.Implies(z3.And(n >= 0, prev - n >= 0), POWF(prev - n) * POWF(n) == POWF(prev)))
            it.path.assume(z3.Implies(prev - n >= 0, POWF(prev - n) >= 1))
        it.path.assume(z3.And(POWF(0) == 1, z3.Implies(n >= 0, POWF(n) >= 1), z3.Implies(att >= 0, POWF(att) >= 1)))
        ctx["seen"].append(n)
        return [
            ("remaining-range", z3.And(n >= 0, n <= att)),
            ("cap-tracks-the-exact-product",
             z3.Or(z3.And(c.k == FIN, c.v >= 0, c.v * POWF(n) == true_val),
                   z3.And(c.k == PINF, true_val > DBL_MAX_R))),
        ]

    def decreases(it, env, ctx):
        return term(env.vars[ctx["names"][1]])

    return LoopSpec(inv, setup=setup, decreases=decreases, prop=P, modifies=lambda it, env, ctx: [])


def t_exp_cap(it, g):
    install(it)
    it.loop_specs[(K_EXP, 1)] = exp_cap_spec(g)

    def h(it):
        p = it.path
        base, max_s = fin_param("base_s"), fin_param("max_s")
        valid_params(it, base, max_s)
        attempt = fint("attempt")
        p.assume(attempt.t >= 1)
        r = call_catch(it, FuncV(it.tree.func(K_EXP)), [base, g, attempt, max_s])
        if r[0] == "exc":
            p.oblige(f"{K_EXP}/raises/none", False, prop=P, detail=repr(r[1]))
            return
        res = to_sfloat(r[1])
        prod = base.v * POW[g][0](attempt.t)
        cap = z3.If(prod < max_s.v, prod, max_s.v)
        p.oblige(f"{K_EXP}/ensures/result==min(max_s,base_s*g^attempt)", z3.And(res.k == FIN, res.v == cap), prop=P)
        p.cover(f"{K_EXP}/normal")

    return h


def witness_pow():
    """the two concrete thresholds assumed by the pow model, checked against the interpreter"""
    code = ("import sys\n"
            "def ov(g,n):\n"
            "    try: g**n; return False\n"
            "    except OverflowError: return True\n"
            "print(ov(2.0,1023), ov(2.0,1024), ov(1.5,1750), ov(1.5,1751))")
    out = subprocess.run(["/venv/bin/python", "-c", code], capture_output=True, text=True).stdout.split()
    return out == ["False", "True", "False", "True"]


def valid_params(it, base, max_s):
    it.path.assume(z3.And(base.v >= 0, base.v <= max_s.v, max_s.v <= DBL_MAX_R))


def prev_sleep_arg(it):
    """None or any delay >= 0 (finite or +inf)"""
    x = fxfloat("prev_sleep")
    it.path.assume(z3.And(z3.Or(x.k == FIN, x.k == PINF), z3.Implies(x.k == FIN, z3.And(x.v >= 0, x.v <= DBL_MAX_R))))
    return fopt("prev_sleep", x)


def closure(it, outer, args=(), kwargs=None):
    return it.call_value(FuncV(it.tree.func(f"{M}:{outer}")), list(args), dict(kwargs or {}))


def t_jitter(it, which):
    install(it)
    key = f"{M}:{which}.<locals>.f"
    gg = {"equal_jitter": 2.0, "token_backoff": 1.5}.get(which)
    if gg is not None:
        it.loop_specs[(K_EXP, 1)] = exp_cap_spec(gg)

    def h(it):
        p = it.path
        if not witness_pow():
            p.oblige(f"{key}/witness/pow-thresholds", False, prop=P)
            return
        base, max_s = fin_param("base_s"), fin_param("max_s")
        valid_params(it, base, max_s)
        f = closure(it, which, kwargs={"base_s": base, "max_s": max_s})
        attempt = fint("attempt")
        p.assume(attempt.t >= 1)
        klass = it.fresh_enum(it.tree.cls("redress.errors:ErrorClass"), "klass")
        prev = prev_sleep_arg(it)
        from pyvc.modelval import val
        pth = it.path

        def spec(m):
            pn = val(m, prev.none)
            pk = val(m, prev.val.k)
            draws = pth.ghost.get("draws", [])
            return {"component": "strategy", "which": which, "base_s": val(m, base.v), "max_s": val(m, max_s.v), "attempt": val(m, attempt.t),
                    "prev": None if pn is True else ("inf" if pk == 1 else val(m, prev.val.v)), "r": val(m, draws[0]) if draws else 0.0}

        pth.replay_spec = spec
        r = call_catch(it, f, [attempt, klass, prev])
        if r[0] == "exc":
            e = r[1]
            p.oblige(f"{key}/raises/none", False, prop=P, detail=f"{e!r}")
            g = {"equal_jitter": 2.0, "token_backoff": 1.5}.get(which)
            if g is not None:
                # carve-out for the known finding F4: nothing else may escape
                p.oblige(f"{key}/raises/only-OverflowError-of-known-finding-F4",
                         z3.And(it.lattice.isinstance_cond(e.cls_t, OverflowError), attempt.t >= POW[g][1]), prop=P)
            p.cover(f"{key}/raises")
            return
        res = to_sfloat(r[1])
        p.oblige(f"{key}/ensures/finite", res.k == FIN, prop=P)
        if which == "decorrelated_jitter":
            p.oblige(f"{key}/ensures/in-[0,max_s]", z3.And(res.v >= 0, res.v <= max_s.v), prop=P)
        else:
            g = {"equal_jitter": 2.0, "token_backoff": 1.5}[which]
            pw = POW[g][0](attempt.t)
            prod = base.v * pw
            cap = z3.If(prod < max_s.v, prod, max_s.v)
            p.oblige(f"{key}/ensures/in-[cap/2,cap]", z3.And(res.v >= cap / 2, res.v <= cap), prop=P)
        p.oblige(f"{key}/ensures/one-random-draw", len(p.ghost.get("draws", [])) == 1, prop=P)
        p.cover(f"{key}/normal")

    return h


# ---------------------------------------------------------------------------------------------
class PairDequeV(DequeV):
    """deque[(timestamp, success)]: timestamps in the array; the success flag is abstracted (arbitrary bool)"""


def t_adaptive(it, which):
    install(it)
    ckey = f"{M}:AdaptiveStrategy"

    def getitem_pair(it_, dq):
        ts = ops.wrap_real(z3.Select(dq.arr, dq.lo))
        return (ts, fbool("success"))

    def h(it):
        p = it.path
        ci = it.tree.cls(ckey)
        dq = PairDequeV(z3.Array(fresh_name("ev"), z3.IntSort(), z3.RealSort()), z3.Int(fresh_name("lo")), z3.Int(fresh_name("hi")))
        p.assume(z3.And(0 <= dq.lo, dq.lo <= dq.hi))
        fallback = EnvFn("fallback")
        window, target = fin_param("window_s"), fin_param("target_success")
        mn, mx = fin_param("min_multiplier"), fin_param("max_multiplier")
        # adaptive()'s validated preconditions (proved in task strategies.adaptive)
        p.assume(z3.And(window.v > 0, target.v > 0, target.v <= 1, mn.v >= 1, mx.v >= mn.v, mx.v <= DBL_MAX_R, window.v <= DBL_MAX_R))
        obj = Obj(ci, {"fallback": fallback, "window_s": window, "target_success": target, "min_multiplier": mn,
                       "max_multiplier": mx, "clock": EnvFn("clock"), "_events": dq, "_lock": LockV()})
        p.ghost["now"] = z3.Real(fresh_name("now0"))
        if which == "_multiplier":
            r = call_catch(it, BoundV(obj, FuncV(it.tree.func(ckey + "._multiplier"))), [])
            key = ckey + "._multiplier"
            if r[0] == "exc":
                p.oblige(f"{key}/raises/none", False, prop=P, detail=repr(r[1]))
                return
            m = to_sfloat(r[1])
            p.oblige(f"{key}/ensures/min<=result<=max", z3.And(m.k == FIN, m.v >= mn.v, m.v <= mx.v), prop=P)
            p.oblige(f"{key}/ensures/lock-released", obj.fields["_lock"].held is False, prop=P)
            p.cover(f"{key}/normal")
            return
        if which == "_record":
            key = ckey + "._record"
            r = call_catch(it, BoundV(obj, FuncV(it.tree.func(ckey + ".record_failure"))), [None])
            p.oblige(f"{key}/raises/none", r[0] == "ok", prop=P)
            p.oblige(f"{key}/ensures/lock-released", obj.fields["_lock"].held is False, prop=P)
            p.cover(f"{key}/normal")
            return
        key = ckey + ".__call__"
        ctx = make_ctx(it)
        r = call_catch(it, obj, [ctx])
        fb = p.ghost.get("fallback_ret")
        if r[0] == "exc":
            p.oblige(f"{key}/raises/only-what-the-fallback-raises", r[1].tag == "fallback", prop=P, detail=repr(r[1]))
            p.cover(f"{key}/raises")
            return
        res = to_sfloat(r[1])
        # result == fallback * m with min <= m <= max; for a finite non-negative fallback: result >= fallback
        fin_nonneg = z3.And(fb.k == FIN, fb.v >= 0)
        mwit = z3.Real("m!w")
        p.oblige(f"{key}/ensures/never-below-nonnegative-fallback",
                 z3.Implies(fin_nonneg, z3.Or(res.k == PINF, z3.And(res.k == FIN, res.v >= fb.v))), prop=P)
        p.oblige(f"{key}/ensures/scaled-within-[min,max]",
                 z3.Implies(z3.And(fin_nonneg, res.k == FIN), z3.And(res.v >= fb.v * mn.v, res.v <= fb.v * mx.v)), prop=P)
        p.oblige(f"{key}/ensures/fallback-called-once", p.ghost.get("fallback_calls", 0) == 1, prop=P)
        p.cover(f"{key}/normal")

    def setup(it_):
        pass

    # models
    orig_getitem = it.getitem

    def getitem(obj, idx, node=None):
        o = it.force(obj)
        if isinstance(o, PairDequeV) and idx == 0:
            if not it.path.branch(o.hi > o.lo):
                it.raise_builtin("IndexError", node)
            return getitem_pair(it, o)
        return orig_getitem(obj, idx, node)

    it.getitem = getitem
    orig_method = it.call_method

    def call_method(obj, attr, args, kwargs, node):
        if isinstance(obj, PairDequeV) and attr == "append":
            pair = args[0]
            obj.arr = z3.Store(obj.arr, obj.hi, rterm(pair[0]))
            obj.hi = z3.simplify(obj.hi + 1)
            return None
        return orig_method(obj, attr, args, kwargs, node)

    it.call_method = call_method
    orig_ext = it.call_ext

    def call_ext(name, args, kwargs, node, env):
        if name == "sum" and isinstance(args[0], GenExp):
            g = args[0]
            src = it.eval(g.node.generators[0].iter, g.env)
            if isinstance(src, PairDequeV):
                n = fint("failures")
                it.path.assume(z3.And(n.t >= 0, n.t <= src.hi - src.lo))
                return n
        return orig_ext(name, args, kwargs, node, env)

    it.call_ext = call_ext

    def clock(it_, fn, args, kwargs, node):
        t = z3.Real(fresh_name("now"))
        it_.path.assume(t >= it_.path.ghost["now"])
        it_.path.ghost["now"] = t
        return Sym(t, "real")

    it.env_models["clock"] = clock

    def fallback(it_, fn, args, kwargs, node):
        it_.path.ghost["fallback_calls"] = it_.path.ghost.get("fallback_calls", 0) + 1
        if it_.path.choose(2, "fallback") == 1:
            e = it_.fresh_exc("fallback", origin="fallback")
            raise PyRaise(e)
        r = fxfloat("fallback_ret")
        it_.path.assume(xfloat_wf(r))
        it_.path.ghost["fallback_ret"] = r
        return r

    it.env_models["fallback"] = fallback

    def prune_inv(it_, env, idx, ctx):
        dq = ctx["dq"]
        return [("range", z3.And(ctx["lo0"] <= dq.lo, dq.lo <= dq.hi)), ("frame", z3.And(dq.hi == ctx["hi0"]))]

    it.loop_specs[(ckey + "._prune", 1)] = LoopSpec(
        prune_inv, setup=lambda it_, env: {"dq": env.lookup("self").fields["_events"], "lo0": env.lookup("self").fields["_events"].lo,
                                           "hi0": env.lookup("self").fields["_events"].hi},
        decreases=lambda it_, env, ctx: ctx["dq"].hi - ctx["dq"].lo, prop=P,
        modifies=lambda it_, env, ctx: [(ctx["dq"], None)])
    return h


def make_ctx(it, retry_after=None, remaining=None):
    tree = it.tree
    cls = Obj(tree.cls("redress.classify:Classification"),
              {"klass": it.fresh_enum(tree.cls("redress.errors:ErrorClass"), "klass"),
               "retry_after_s": retry_after, "details": fref("details")}, frozen=True)
    return Obj(tree.cls("redress.strategies:BackoffContext"),
               {"attempt": fint("attempt"), "classification": cls, "prev_sleep_s": None, "remaining_s": remaining,
                "cause": "exception"}, frozen=True)


def t_adaptive_ctor(it):
    install(it)
    key = f"{M}:adaptive"

    def h(it):
        p = it.path
        window, target = fin_param("window_s"), fin_param("target_success")
        mn, mx = fin_param("min_multiplier"), fin_param("max_multiplier")
        it.contracts[f"{M}:_normalize_strategy"] = lambda it_, fv, a, k, n: a[0]
        r = call_catch(it, FuncV(it.tree.func(key)), [EnvFn("fallback")],
                       {"window_s": window, "target_success": target, "min_multiplier": mn, "max_multiplier": mx})
        valid = z3.And(window.v > 0, target.v > 0, target.v <= 1, mn.v >= 1, mx.v >= mn.v)
        if r[0] == "exc":
            p.oblige(f"{key}/raises/only-when-invalid", z3.Not(valid), prop=P)
            p.oblige(f"{key}/raises/ValueError", it.lattice.isinstance_cond(r[1].cls_t, ValueError), prop=P)
            p.cover(f"{key}/raises")
            return
        o = r[1].fields
        p.oblige(f"{key}/ensures/validated", valid, prop=P)
        p.oblige(f"{key}/ensures/fields", z3.And(to_sfloat(o["min_multiplier"]).v == mn.v, to_sfloat(o["max_multiplier"]).v == mx.v,
                                                 to_sfloat(o["target_success"]).v == target.v, to_sfloat(o["window_s"]).v == window.v), prop=P)
        p.cover(f"{key}/normal")

    return h


def t_retry_after_or(it):
    """C18: finite, >= 0, <= remaining; raises only what the fallback raises.
       C20: a finite hint h is honoured: max(0,h) <= delay-before-cap <= max(0,h) + jitter, result == min(that, remaining)."""
    install(it)
    key = f"{M}:retry_after_or.<locals>.f"

    def fallback(it_, fn, args, kwargs, node):
        it_.path.ghost["fallback_calls"] = it_.path.ghost.get("fallback_calls", 0) + 1
        if it_.path.choose(2, "fallback") == 1:
            raise PyRaise(it_.fresh_exc("fallback", origin="fallback"))
        r = fxfloat("fallback_ret")
        it_.path.assume(xfloat_wf(r))
        return r

    it.env_models["fallback"] = fallback

    def h(it):
        p = it.path
        jitter = fin_param("jitter_s")
        p.assume(z3.And(jitter.v <= DBL_MAX_R, jitter.v >= -DBL_MAX_R))
        it.contracts[f"{M}:_normalize_strategy"] = lambda it_, fv, a, k, n: a[0]
        f = closure(it, "retry_after_or", [EnvFn("fallback")], {"jitter_s": jitter})
        hint = fxfloat("retry_after_s")
        p.assume(xfloat_wf(hint))
        ra = fopt("retry_after_s", hint)
        rem = freal("remaining_s")
        p.assume(rem.t >= 0)
        remaining = fopt("remaining_s", rem)
        ctx = make_ctx(it, ra, remaining)
        hint_given = z3.And(z3.Not(ra.none), hint.k == FIN)
        jit = z3.If(jitter.v > 0, jitter.v, 0)
        h0 = z3.If(hint.v > 0, hint.v, 0)
        # valid parameterisation: hint + jitter stays in float range (otherwise the sum is inf and sanitised to 0)
        p.assume(z3.Implies(hint_given, h0 + jit <= DBL_MAX_R))
        r = call_catch(it, f, [ctx])
        if r[0] == "exc":
            p.oblige(f"{key}/raises/only-what-the-fallback-raises", r[1].tag == "fallback", prop=P, detail=repr(r[1]))
            p.oblige(f"{key}/C20/fallback-not-consulted-when-hint-given", z3.Not(hint_given), prop="C20")
            p.cover(f"{key}/raises")
            return
        res = to_sfloat(r[1])
        p.oblige(f"{key}/ensures/finite-nonnegative", z3.And(res.k == FIN, res.v >= 0), prop=P)
        p.oblige(f"{key}/ensures/<=remaining", z3.Implies(z3.Not(remaining.none), res.v <= rem.t), prop=P)
        # C20 honouring
        cap = lambda x: z3.If(z3.And(z3.Not(remaining.none), rem.t < x), rem.t, x)
        p.oblige(f"{key}/C20/waits-at-least-the-hint-unless-deadline-smaller", z3.Implies(hint_given, res.v >= cap(h0)), prop="C20")
        p.oblige(f"{key}/C20/waits-at-most-hint-plus-jitter", z3.Implies(hint_given, res.v <= cap(h0 + jit)), prop="C20")
        p.oblige(f"{key}/C20/fallback-used-iff-no-finite-hint",
                 (p.ghost.get("fallback_calls", 0) == 1) == bool(z3.is_false(z3.simplify(hint_given))) if (
                     z3.is_true(z3.simplify(hint_given)) or z3.is_false(z3.simplify(hint_given))) else
                 z3.BoolVal(p.ghost.get("fallback_calls", 0) == 1) == z3.Not(hint_given), prop="C20")
        p.cover(f"{key}/normal")
        if p.feasible(hint_given):
            p.cover(f"{key}/hint-honoured")

    return h


def t_normalize(it):
    """C05: legacy 3-argument strategies are adapted faithfully; other shapes are rejected with TypeError."""
    install(it)
    key = f"{M}:_normalize_strategy"
    # every signature shape: r required + o defaulted positional parameters (positional-only or not), an optional *args, and no /
    # a defaulted / a required keyword-only parameter; the documented rule looks at the REQUIRED positional ones only:
    # one -> context-style (returned unchanged, whatever it defaults), three -> legacy (attempt, klass, prev_sleep_s), else TypeError
    SHAPES = {"no-signature": None}
    EXPECT = {}
    for r_ in range(0, 5):
        for o_ in range(0, 4):
            for kind in ("POSITIONAL_OR_KEYWORD", "POSITIONAL_ONLY"):
                for va in (False, True):
                    for kw in ("none", "default", "required"):
                        nm = f"req{r_}+opt{o_}/{kind[11:].lower() or 'pos'}{'/varargs' if va else ''}/kwonly-{kw}"
                        params = [(kind, False)] * r_ + [(kind, True)] * o_ + ([("VAR_POSITIONAL", False)] if va else [])
                        if kw != "none":
                            params.append(("KEYWORD_ONLY", kw == "default"))
                        SHAPES[nm] = params
                        EXPECT[nm] = None if kw == "required" else ("ctx" if r_ == 1 else ("legacy" if r_ == 3 else None))
    names = list(SHAPES)

    def signature(it_, args, kwargs, node):
        shape = it_.path.ghost["shape"]
        if SHAPES[shape] is None:
            it_.raise_builtin("ValueError", node)
        params = []
        for kind, has_default in SHAPES[shape]:
            params.append(Obj(None, {"kind": ExtV(f"inspect.Parameter.{kind}"),
                                     "default": fref("default") if has_default else ExtV("inspect.Parameter.empty")}))
        return Obj(None, {"parameters": {f"p{i}": p for i, p in enumerate(params)}})

    it.ext_models["inspect.signature"] = signature
    stdlib.trusted("inspect.signature", "returns the declared parameters (kind, default) of the callable, or raises TypeError/ValueError")

    def legacy(it_, fn, args, kwargs, node):
        it_.path.ghost["legacy_args"] = args
        r = fxfloat("legacy_ret")
        it_.path.ghost["legacy_ret"] = r
        return r

    it.env_models["user_strategy"] = legacy

    def h(it):
        p = it.path
        shape = names[p.choose(len(names), "shape")]
        p.ghost["shape"] = shape
        strat = EnvFn("user_strategy")
        r = call_catch(it, FuncV(it.tree.func(key)), [strat])
        ok_shapes = {k: v for k, v in EXPECT.items() if v is not None}
        if r[0] == "exc":
            p.oblige(f"{key}/raises/TypeError-only-for-unsupported-shapes",
                     z3.And(it.lattice.isinstance_cond(r[1].cls_t, TypeError), z3.BoolVal(shape not in ok_shapes)), prop="C05")
            p.cover(f"{key}/raises[{shape}]")
            return
        p.oblige(f"{key}/ensures/accepted-shape", shape in ok_shapes, prop="C05")
        fn = r[1]
        if ok_shapes.get(shape) == "ctx":
            p.oblige(f"{key}/ensures/context-style-returned-unchanged", fn is strat, prop="C05")
        else:
            ctx = make_ctx(it)
            ctx.fields["prev_sleep_s"] = fopt("prev", freal("prev"))
            out = it.call_value(fn, [ctx], {})
            a = p.ghost.get("legacy_args")
            p.oblige(f"{key}/ensures/legacy-called-with-(attempt,klass,prev_sleep_s)",
                     a is not None and len(a) == 3 and a[0] is ctx.fields["attempt"]
                     and a[1] is ctx.fields["classification"].fields["klass"] and a[2] is ctx.fields["prev_sleep_s"], prop="C05")
            p.oblige(f"{key}/ensures/legacy-result-returned", out is p.ghost.get("legacy_ret"), prop="C05")
        p.cover(f"{key}/normal[{shape}]")

    return h


TASKS = [
    Task("strategies.decorrelated_jitter", lambda it: t_jitter(it, "decorrelated_jitter"), [P], [f"{M}:decorrelated_jitter.<locals>.f"]),
    Task("strategies.equal_jitter", lambda it: t_jitter(it, "equal_jitter"), [P], [f"{M}:equal_jitter.<locals>.f"]),
    Task("strategies.token_backoff", lambda it: t_jitter(it, "token_backoff"), [P], [f"{M}:token_backoff.<locals>.f"]),
    Task("strategies._exp_cap[2.0]", lambda it: t_exp_cap(it, 2.0), [P], [K_EXP]),
    Task("strategies._exp_cap[1.5]", lambda it: t_exp_cap(it, 1.5), [P], [K_EXP]),
    Task("strategies.AdaptiveStrategy._multiplier", lambda it: t_adaptive(it, "_multiplier"), [P],
         [f"{M}:AdaptiveStrategy._multiplier", f"{M}:AdaptiveStrategy._prune"]),
    Task("strategies.AdaptiveStrategy._record", lambda it: t_adaptive(it, "_record"), [P],
         [f"{M}:AdaptiveStrategy._record", f"{M}:AdaptiveStrategy.record_failure"]),
    Task("strategies.AdaptiveStrategy.__call__", lambda it: t_adaptive(it, "__call__"), [P], [f"{M}:AdaptiveStrategy.__call__"]),
    Task("strategies.adaptive", t_adaptive_ctor, [P], [f"{M}:adaptive"]),
    Task("strategies.retry_after_or", t_retry_after_or, [P, "C20"], [f"{M}:retry_after_or.<locals>.f"]),
    Task("strategies._normalize_strategy", t_normalize, ["C05"], [f"{M}:_normalize_strategy", f"{M}:_normalize_strategy.<locals>.wrapped"]),
]
for _t in TASKS:
    _t.assumptions = ["C18: parameters are finite doubles with 0 <= base_s <= max_s; previous delay is None or in [0, +inf]; "
                      "AdaptiveStrategy's success flags are abstracted (0 <= failures <= total)",
                      "C20 honouring: max(0, hint) + jitter_s stays within float range"]

for _t in TASKS:
    if _t.name.split(".")[-1] in ("decorrelated_jitter", "equal_jitter", "token_backoff"):
        _t.replay_script = "model_replay.py"
