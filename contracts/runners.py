"""The four retry loops (_run_{sync,async}_{call,execute}) against the shared loop invariant INV and the
exit postconditions of C01-C05, C11, C13, C14, C16.  _handle_failure, the sleep actions, emit, elapsed and
Budget.consume are used through their contracts; everything else on the path is the real source, inlined."""
from __future__ import annotations

import z3

from pyvc import ops, stdlib
from pyvc.harness import T, Task, call_catch, fint, freal, fref
from pyvc.interp import LoopSpec
from pyvc.interp_expr import PyRaise
from pyvc.ops import rterm, sterm, term, to_sfloat
from pyvc.values import FIN, EnumVal, EnvFn, FuncV, Obj, Ref, SFloat, SOpt, Sym, fresh_name

from . import sleepaction
from . import stateview as sv
from .state import EVENT_OF_REASON, install_state_contracts
from .world import CLASSES, EPS, G, Ghost, NONRETRY, RetryWorld, W

RUNNERS = {
    "sync_call": ("redress.policy.runner.sync_core:_run_sync_call", False, False),
    "sync_execute": ("redress.policy.runner.sync_core:_run_sync_execute", False, True),
    "async_call": ("redress.policy.runner.async_core:_run_async_call", True, False),
    "async_execute": ("redress.policy.runner.async_core:_run_async_execute", True, True),
}
CANCEL = ["CancelledError", "KeyboardInterrupt", "SystemExit"]


def pos(t):
    """max(t, 0): caps/deadlines below zero permit nothing"""
    return z3.If(t > 0, t, 0)


def find_state(env):
    """the _RetryState of this run: found by type, not by the local's name"""
    for v in env.vars.values():
        if isinstance(v, Obj) and v.cls is not None and v.cls.name == "_RetryState":
            return v
    return env.lookup("state")


def loop_inv(it, env, idx, ctx):
    w, g = W(it), G(it)
    st = find_state(env)
    a = term(idx)
    v = sv.View(it, st)
    E = lambda n: it.enum_const(w.ec, n)
    start = term(st.fields["start_mono"])
    out = []
    add = lambda n, f: out.append((n, f))
    add("attempt-range", z3.And(a >= 1, z3.Or(a == 1, a <= w.max_attempts.t)))
    add("invocations", g["inv"] == a - 1)
    add("events", z3.And(g["n_retry"] == a - 1, g["n_term"] == 0))
    add("no-abort-defer-pending", z3.And(z3.Not(g["aborted"]), z3.Not(g["deferred"]), z3.Not(g["handler_aborted"]),
                                         z3.Not(g["nonretry_seen"])))
    add("stop-reason-none", v.none("last_stop_reason"))
    add("state-wf", sv.wf_state(it, st))
    for k in CLASSES:
        add(f"retries-after/{k}", z3.And(g[f"ra_{k}"] >= 0, g[f"ra_{k}"] <= v.f["per_class_counts"][k],
                                         z3.Implies(z3.Not(w.limits[k].none), g[f"ra_{k}"] <= pos(w.limits[k].val.t))))
    add("retries-after-UNKNOWN", z3.And(g["ra_UNKNOWN"] <= v.f["unknown_attempts"],
                                        z3.Implies(z3.Not(w.max_unknown.none), g["ra_UNKNOWN"] <= pos(w.max_unknown.val.t))))
    add("post-sleep-deadline-check", z3.Implies(a > 1, z3.And(z3.Not(g["need_post_sleep_read"]),
                                                              g["post_sleep_elapsed"] <= w.deadline.s)))
    add("post-sleep-read-is-a-rounded-clock-reading",
        z3.Implies(a > 1, z3.And(g["post_sleep_elapsed"] - (g["post_sleep_t"] - start) <= EPS / 2,
                                 (g["post_sleep_t"] - start) - g["post_sleep_elapsed"] <= EPS / 2)))
    add("sleep-budget", z3.And(g["slept_total"] >= 0, start <= g["now"], g["slept_total"] <= g["now"] - start,
                               g["slept_total"] <= pos(w.deadline_s) + EPS))
    fn_none = T(it.is_none(env.lookup("sleep_fn")))
    add("sleeps-and-handler-calls", z3.And(g["sleeps"] >= 0, g["sleeps"] <= a - 1,
                                           z3.Implies(fn_none, z3.And(g["sleeps"] == a - 1, g["handler_calls"] == 0)),
                                           z3.Implies(z3.Not(fn_none), z3.And(g["handler_calls"] == a - 1, g["sleeps"] == a - 1))))
    add("tokens", z3.If(w.budget.none, g["tokens"] == 0, g["tokens"] == a - 1))
    add("first-iteration-is-a-fresh-state",
        z3.Implies(a == 1, z3.And([v.f["per_class_counts"][k] == 0 for k in CLASSES] + [
            v.f["unknown_attempts"] == 0, v.none("prev_sleep"), v.none("last_class"), v.none("last_exc"), v.none("last_result"),
            z3.Not(g["last_op_was_failure"]), g["last_op_kind"] == 0])))
    # the state's last_* fields describe the failure of attempt a-1 (ghost final-attempt record)
    lc_none, lc = v.f["last_class"]
    cs_none, cs = v.f["last_cause"]
    conj = [z3.Not(lc_none), g["last_op_was_failure"], g["last_fail_valid"]]
    if lc is not None:
        conj += [lc == g["last_cls"], g["last_fail_class"] == g["last_cls"]]
    ncl, cl = v.f["last_classification"]
    if cl is not None:
        conj.append(cl == g["last_cls_ident"])
    if cs is not None:
        conj.append(cs == g["last_cause"])
        le_none, le = v.f["last_exc"]
        lr_none, lr = v.f["last_result"]
        if le is not None:
            conj.append(z3.Implies(cs == z3.StringVal("exception"), z3.And(z3.Not(le_none), le == g["fail_ident"], g["fail_ident"] == g["last_op_ident"], g["last_op_kind"] == 2)))
        if lr is not None:
            conj.append(z3.Implies(cs == z3.StringVal("result"), z3.And(z3.Not(lr_none), lr == g["fail_ident"], g["fail_ident"] == g["last_op_ident"], g["last_op_kind"] == 1)))
    ps_none, ps = v.f["prev_sleep"]
    if ps is not None:
        conj.append(z3.And(z3.Not(ps_none), ps.v == g["last_retry_sleep"]))
    add("last-failure-record", z3.Implies(a > 1, z3.And(conj)))
    if "attempts" in env.vars and env.vars["attempts"] is not it.POISON:
        add("attempts-local", term(env.vars["attempts"]) == a - 1)
    return out


def make_loop_spec(prop_list):
    def setup(it, env):
        return {"state": find_state(env)}

    def modifies(it, env, ctx):
        st = ctx["state"]
        # every field of the state the code base ever assigns outside __init__ (the contract's own fields plus any the code
        # added since): havoced at the loop cut - the invariant constrains only what it knows about
        mut = it.mutable_fields()
        return [(st, f) for f in st.fields if f in sv.FIELDS or (f in mut and f not in sv.STABLE)]

    def havoc(it, env, ctx):
        old = G(it)
        g = Ghost(it, fresh=True, prefix="L")
        it.path.ghost["G"] = g
        it.path.ghost["now"] = g["now"]
        it.path.assume(g["now"] >= old["now"])

    return LoopSpec(loop_inv, setup=setup, modifies=modifies, havoc=havoc, prop=None)


def at_continue(it):
    """ghost update when a retry is granted (ContinueAction): count it against the class of the failure"""
    g, w = G(it), W(it)
    K = g["last_fail_class"]
    for k in CLASSES:
        g[f"ra_{k}"] = g[f"ra_{k}"] + z3.If(K == it.enum_const(w.ec, k), 1, 0)


def install(it, runner):
    install_state_contracts(it)
    sleepaction.install(it)
    key, is_async, is_exec = RUNNERS[runner]
    spec = make_loop_spec(None)
    it.loop_specs[(key, 1)] = spec
    it.ext_models["typing.TypeVar"] = lambda it_, a, k, n: Ref(z3.Int(fresh_name("typevar")))
    it.ext_models["typing.ParamSpec"] = lambda it_, a, k, n: Ref(z3.Int(fresh_name("paramspec")))
    it.attr_models["with_traceback"] = lambda it_, o, attr, node: EnvFn("with_traceback", attrs={"o": o})
    it.env_models["with_traceback"] = lambda it_, fn, a, k, n: fn.attrs["o"]
    # asyncio.current_task(): the task driving the run; how many cancel() requests are pending on it is the environment's choice
    def _cancelling(it_, fn, a, k, n):
        c = z3.Int(fresh_name("cancelling"))
        it_.path.assume(c >= 0)
        return ops.wrap_int(c)
    it.ext_models["asyncio.current_task"] = lambda it_, a, k, n: Obj(None, {"cancelling": EnvFn("task.cancelling"), "uncancel": EnvFn("task.cancelling")})
    it.env_models["task.cancelling"] = _cancelling
    from .stateview import fresh_field
    for fname, kind in sv.FIELDS.items():
        it.field_sorts[("_RetryState", fname)] = (lambda kind_: (lambda it_, f: fresh_field(it_, f, kind_, "L")))(kind)
    from pyvc.values import EnumMap
    it.ext_models["collections.defaultdict"] = lambda it_, a, k, n: EnumMap(
        it_.tree.cls("redress.errors:ErrorClass"), {c: 0 for c in CLASSES}, defaultdict=True)
    # the loop variable is the attempt number: publish it to the monitors
    def stmt_hook(it_, node, env):
        if env.func is not None and env.func.key == key and "attempt" in env.vars and env.vars["attempt"] is not it_.POISON:
            W(it_).attempt = env.vars["attempt"]

    it.stmt_hooks.append(stmt_hook)

    # stop-reason soundness at the moment a reason is written by inlined code (HF / SA writes are inside contracts)
    def reason_write(it_, o, attr, mode, node):
        if mode != "write" or attr != "last_stop_reason" or o.cls is None or o.cls.name != "_RetryState":
            return
        fn = it_.frames[-1].func.key if it_.frames and it_.frames[-1].func else "?"
        if fn.endswith(".__init__"):
            return
        w_, g_ = W(it_), G(it_)
        # the value being written is not passed to the hook: recover it from the assignment node
        val = it_.eval(node_value(it_, node), it_.frames[-1]) if node_value(it_, node) is not None else None
        nm = it_.enum_concrete_name(val) if isinstance(val, EnumVal) else None
        if nm == "DEADLINE_EXCEEDED":
            it_.path.oblige(f"{fn}/C03/DEADLINE_EXCEEDED-only-when-observed-past-deadline", g_["last_elapsed"] > w_.deadline.s, prop="C03")
        elif nm == "MAX_ATTEMPTS_GLOBAL":
            it_.path.oblige(f"{fn}/C03/MAX_ATTEMPTS_GLOBAL-only-at-the-cap", g_["inv"] >= w_.max_attempts.t, prop="C03")
        elif nm == "ABORTED":
            it_.path.oblige(f"{fn}/C03/ABORTED-only-on-abort", z3.Or(g_["aborted"], g_["handler_aborted"]), prop="C03")
        elif nm is not None:
            it_.path.oblige(f"{fn}/C03/unexpected-stop-reason-write/{nm}", False, prop="C03")

    it.field_hooks.append(reason_write)

    # frame: a run never writes to the policy object (no counter can carry over between calls on one policy - C01)
    def policy_frame(it_, o, attr, mode, node):
        if mode == "write" and o is W(it_).policy:
            fn = it_.frames[-1].func.key if it_.frames and it_.frames[-1].func else "?"
            it_.path.oblige(f"{fn}/C01/frame/policy-object-not-modified/{attr}", False, prop=None)

    it.field_hooks.append(policy_frame)
    # ContinueAction -> back-edge: ghost bookkeeping happens when `continue` executes in the runner
    orig_continue = it.s_Continue

    def s_continue(node, env):
        if env.func is not None and env.func.key == key:
            at_continue(it)
        return orig_continue(node, env)

    it.s_Continue = s_continue


def node_value(it, node):
    """the right-hand side of the assignment statement containing attribute-store `node`"""
    import ast
    env = it.frames[-1]
    for st in ast.walk(env.func.node):
        if isinstance(st, ast.Assign) and any(t is node for t in st.targets):
            return st.value
    return None


class _WithTb:
    """exc.with_traceback(tb) returns exc itself"""

    def __init__(self, o):
        self.o = o
        self.thunk = None


# ---------------------------------------------------------------------------------------------
def exit_obligations(it, w, key, is_exec, r):
    g, p = G(it), it.path
    st = w.state_obj
    R = lambda n: it.enum_const(w.sr, n)
    ARE = it.tree.cls("redress.errors:AbortRetryError")
    REE = it.tree.cls("redress.errors:RetryExhaustedError")
    lat = it.lattice
    p.oblige(f"{key}/exit/C01/invocations<=max_attempts", z3.Or(g["inv"] <= w.max_attempts.t, g["inv"] == 0), prop="C01")
    p.oblige(f"{key}/exit/C02/eps/total-sleep<=deadline", g["slept_total"] <= pos(w.deadline_s) + EPS, prop="C02")
    p.oblige(f"{key}/exit/C14/at-most-one-terminal-event", g["n_term"] <= 1, prop="C14")
    p.oblige(f"{key}/exit/C16/at-most-one-sleep-per-retry-event", g["sleeps"] <= g["n_retry"], prop="C16")
    p.oblige(f"{key}/exit/C03/tokens<=retry-events", g["tokens"] <= g["n_retry"], prop="C03")
    v = sv.View(it, st) if st is not None else None
    if r[0] == "exc":
        e = r[1]
        tag = e.tag
        is_cancel = z3.Or([lat.isinstance_cond(e.cls_t, {"CancelledError": __import__("asyncio").CancelledError,
                                                         "KeyboardInterrupt": KeyboardInterrupt, "SystemExit": SystemExit}[c]) for c in CANCEL])
        if tag == "func":
            p.oblige(f"{key}/exit/C04/raised-exception-is-the-last-attempts", e.ident == g["last_op_ident"], prop="C04")
            is_abort = lat.isinstance_cond(e.cls_t, ARE)
            is_ree = lat.isinstance_cond(e.cls_t, REE)
            is_exc = lat.isinstance_cond(e.cls_t, Exception)
            untouched = z3.And(g["n_term"] == 0, g["strat_calls_attempt"] == 0, g["sleeps_attempt"] == 0,
                               g["handler_calls_attempt"] == 0, z3.Not(g["polled"]))
            if p.branch(is_abort):
                if is_exec:
                    p.oblige(f"{key}/exit/C11/operation-AbortRetryError-does-not-escape-execute", False, prop="C11")
                p.oblige(f"{key}/exit/C13/abort-ends-run-with-aborted-event",
                         z3.And(g["n_term"] == 1, g["term_event"] == z3.StringVal("aborted"), g["sleeps_attempt"] == 0,
                                g["strat_calls_attempt"] == 0), prop="C13")
                # C14: abort events carry only the reason and the operation - also when earlier attempts of this run failed
                p.oblige(f"{key}/exit/C14/abort-terminal-event",
                         z3.And(g["n_term"] == 1, g["term_event"] == z3.StringVal("aborted"), z3.Not(g["term_reason_none"]),
                                g["term_reason"] == R("ABORTED"), g["term_class_none"], g["term_exc_none"], g["term_cause_none"]), prop="C14")
                p.cover(f"{key}/exit/raise/op-abort")
            elif p.branch(z3.Or(is_cancel, is_ree, z3.Not(is_exc))):
                # cancellation-type, nested RetryExhaustedError, other BaseException: propagate at once, untouched
                p.oblige(f"{key}/exit/C13/propagates-at-once-never-classified-retried-delayed", untouched, prop="C13")
                p.cover(f"{key}/exit/raise/cancel-or-nested")
            else:
                if is_exec:
                    p.oblige(f"{key}/exit/C11/operation-failure-does-not-escape-execute", False, prop="C11")
                # retries stopped on an exception-caused failure
                p.oblige(f"{key}/exit/C04/last-failure-was-this-exception",
                         z3.And(g["last_op_was_failure"], g["last_cause"] == z3.StringVal("exception"), g["last_op_kind"] == 2), prop="C04")
                stop_obligations(it, w, key, v, "raise")
                p.cover(f"{key}/exit/raise/op-exception")
            return
        if tag == "timeout":
            return
        if e.cls is not None and e.cls.name == "AbortRetryError":
            p.oblige(f"{key}/exit/C13/AbortRetryError-only-when-aborted", z3.Or(g["aborted"], g["handler_aborted"]), prop="C13")
            p.oblige(f"{key}/exit/C14/abort-terminal-event",
                     z3.And(g["n_term"] == 1, g["term_event"] == z3.StringVal("aborted"), z3.Not(g["term_reason_none"]),
                            g["term_reason"] == R("ABORTED"), g["term_class_none"], g["term_exc_none"], g["term_cause_none"]), prop="C14")
            if is_exec:
                p.oblige(f"{key}/exit/C11/abort-does-not-escape-execute", False, prop="C11")
            p.cover(f"{key}/exit/raise/abort")
            return
        if e.cls is not None and e.cls.name == "RetryExhaustedError":
            if is_exec:
                p.oblige(f"{key}/exit/C11/exhaustion-does-not-escape-execute", False, prop="C11")
            f = e.fields
            # delivery contract of call(): an aborted run (abort_if, the operation's AbortRetryError, a handler's ABORT) is delivered as
            # AbortRetryError - never as RetryExhaustedError, whatever stop_reason that would carry (the policy layer relies on it)
            p.oblige(f"{key}/exit/abort-is-delivered-as-AbortRetryError", z3.Not(z3.Or(g["aborted"], g["handler_aborted"])), prop=None)
            delivered(it, w, key, v, stop_reason=f["stop_reason"], attempts=f["attempts"], last_class=f["last_class"],
                      last_exception=f["last_exception"], last_result=f["last_result"], next_sleep_s=f["next_sleep_s"],
                      cause=None, kind="RetryExhaustedError")
            p.cover(f"{key}/exit/raise/exhausted")
            return
        if tag == "raised-by-code":
            p.oblige(f"{key}/exit/C04/RuntimeError-only-without-attempts",
                     z3.And(lat.isinstance_cond(e.cls_t, RuntimeError), g["inv"] == 0, w.max_attempts.t < 1), prop="C04")
            p.cover(f"{key}/exit/raise/no-attempts")
            return
        # errors of the caller's own callbacks propagate
        allowed = ("strategy", "classifier", "result_classifier", "sleep_fn", "sleeper", "sleep_fn-invalid-return", "hook")
        p.oblige(f"{key}/exit/C11/only-callback-errors-propagate", tag in allowed, prop="C11", detail=str(tag))
        if tag == "hook":
            p.oblige(f"{key}/exit/C15/hook-error-escapes-only-if-not-Exception", z3.Not(lat.isinstance_cond(e.cls_t, Exception)), prop="C15")
        p.cover(f"{key}/exit/raise/callback[{tag}]")
        return
    # ---------------- normal return
    res = r[1]
    if isinstance(res, tuple) and res and res[0] == "coro_done":
        res = res[1]
    if not is_exec:
        p.oblige(f"{key}/exit/C04/returns-the-last-attempts-own-object",
                 z3.And(ops.ident_of(res) == g["last_op_ident"], g["last_op_kind"] == 1) if ops.ident_of(res) is not None else False, prop="C04")
        success_obligations(it, w, key)
        p.cover(f"{key}/exit/return")
        return
    o = res
    p.oblige(f"{key}/exit/C11/returns-RetryOutcome", isinstance(o, Obj) and o.cls is not None and o.cls.name == "RetryOutcome", prop="C11")
    f = o.fields
    ok = f["ok"]
    if ok is True:
        p.oblige(f"{key}/exit/C11/ok-value-is-the-last-attempts-result",
                 z3.And(ops.ident_of(f["value"]) == g["last_op_ident"], g["last_op_kind"] == 1) if ops.ident_of(f["value"]) is not None else False, prop="C11")
        p.oblige(f"{key}/exit/C11/ok-has-no-failure-fields",
                 all(f[k] is None for k in ("stop_reason", "last_class", "last_exception", "last_result", "cause", "next_sleep_s")), prop="C11")
        p.oblige(f"{key}/exit/C11/attempts==invocations", term(f["attempts"]) == g["inv"], prop="C11")
        success_obligations(it, w, key)
        p.cover(f"{key}/exit/outcome-ok")
        return
    p.oblige(f"{key}/exit/C11/ok-is-bool", ok is False, prop="C11")
    p.oblige(f"{key}/exit/C11/not-ok-has-no-value", f["value"] is None, prop="C11")
    delivered(it, w, key, v, stop_reason=f["stop_reason"], attempts=f["attempts"], last_class=f["last_class"],
              last_exception=f["last_exception"], last_result=f["last_result"], next_sleep_s=f["next_sleep_s"],
              cause=f["cause"], kind="RetryOutcome")
    p.cover(f"{key}/exit/outcome-not-ok")


def success_obligations(it, w, key):
    g, p = G(it), it.path
    p.oblige(f"{key}/exit/C14/success-terminal-event",
             z3.And(g["n_term"] == 1, g["term_event"] == z3.StringVal("success"), g["term_attempt"] == g["inv"],
                    g["term_reason_none"], g["term_class_none"], g["term_exc_none"], g["term_cause_none"]), prop="C14")
    p.oblige(f"{key}/exit/C03/success-ends-the-run-at-once",
             z3.And(g["strat_calls_attempt"] == 0, g["sleeps_attempt"] == 0, g["handler_calls_attempt"] == 0, g["n_retry"] == g["inv"] - 1), prop="C03")


def optv(it, v, payload):
    return sv.opt_view(it, v, payload)


def stop_obligations(it, w, key, v, how):
    """retries stopped on a failure: terminal event matches the state's stop reason; reason is sound"""
    g, p = G(it), it.path
    R = lambda n: it.enum_const(w.sr, n)
    rn, rv = v.f["last_stop_reason"]
    p.oblige(f"{key}/exit/C03/stop-reason-set", z3.Not(rn), prop="C03")
    if rv is None:
        return
    p.oblige(f"{key}/exit/C14/terminal-event-carries-delivered-stop-reason",
             z3.And(g["n_term"] == 1, z3.Not(g["term_reason_none"]), g["term_reason"] == rv), prop="C14")
    p.oblige(f"{key}/exit/C14/terminal-event-describes-final-failure",
             z3.Implies(z3.And(rv != R("ABORTED"), g["last_op_was_failure"]),
                        z3.And(z3.Not(g["term_class_none"]), g["term_class"] == g["last_cls"],
                               z3.Not(g["term_cause_none"]), g["term_cause"] == g["last_cause"],
                               z3.Implies(g["last_cause"] == z3.StringVal("exception"),
                                          z3.And(z3.Not(g["term_exc_none"]), g["term_exc"] == g["fail_ident"])),
                               z3.Implies(g["last_cause"] == z3.StringVal("result"), g["term_exc_none"]))), prop="C14")
    p.oblige(f"{key}/exit/C14/no-failure=>event-has-no-failure-tags",
             z3.Implies(z3.Not(g["last_op_was_failure"]), z3.And(g["term_class_none"], g["term_exc_none"], g["term_cause_none"])), prop="C14")
    for rname, evname in EVENT_OF_REASON.items():
        p.oblige(f"{key}/exit/C14/event-name-matches-reason/{rname}",
                 z3.Implies(rv == R(rname), g["term_event"] == z3.StringVal(evname)), prop="C14")
    if w.attempt is not None:
        a = term(w.attempt)
        p.oblige(f"{key}/exit/C03/MAX_ATTEMPTS_GLOBAL-only-at-the-cap", z3.Implies(rv == R("MAX_ATTEMPTS_GLOBAL"), g["inv"] >= w.max_attempts.t), prop="C03")
    p.oblige(f"{key}/exit/C03/SCHEDULED-only-on-defer", z3.Implies(rv == R("SCHEDULED"), g["deferred"]), prop="C03")
    p.oblige(f"{key}/exit/C03/ABORTED-only-on-abort", z3.Implies(rv == R("ABORTED"), z3.Or(g["aborted"], g["handler_aborted"])), prop="C03")


def delivered(it, w, key, v, *, stop_reason, attempts, last_class, last_exception, last_result, next_sleep_s, cause, kind):
    """C04 / C11: the delivered description equals the ghost final-attempt record"""
    g, p = G(it), it.path
    R = lambda n: it.enum_const(w.sr, n)
    prop = "C04" if kind == "RetryExhaustedError" else "C11"
    base = f"{key}/exit/{prop}/{kind}"
    sn, sval = optv(it, stop_reason, lambda x: x.t)
    p.oblige(f"{base}/attempts==invocations", term(attempts) == g["inv"], prop=prop)
    aborted_before_failure = z3.Not(g["last_op_was_failure"])
    ln, lv = optv(it, last_class, lambda x: x.t)
    en, evv = optv(it, last_exception, lambda x: x.ident)
    rn, rvv = optv(it, last_result, lambda x: ops.ident_of(x))
    nn, nv = optv(it, next_sleep_s, lambda x: to_sfloat(x).v)
    if kind == "RetryOutcome":
        p.oblige(f"{base}/stop_reason-set", z3.Not(sn), prop=prop)
        cn, cv = optv(it, cause, lambda x: sterm(x))
        p.oblige(f"{base}/none-if-aborted-before-any-failure",
                 z3.Implies(aborted_before_failure, z3.And(ln, en, rn, cn)), prop=prop)
        p.oblige(f"{base}/cause", z3.Implies(g["last_op_was_failure"], z3.And(z3.Not(cn), cv == g["last_cause"]) if cv is not None else False), prop=prop)
    p.oblige(f"{base}/last_class-is-final-failures-class",
             z3.Implies(g["last_op_was_failure"], z3.And(z3.Not(ln), lv == g["last_cls"]) if lv is not None else False), prop=prop)
    is_result = z3.And(g["last_op_was_failure"], g["last_cause"] == z3.StringVal("result"))
    is_excc = z3.And(g["last_op_was_failure"], g["last_cause"] == z3.StringVal("exception"))
    p.oblige(f"{base}/result-failure=>last_result-is-the-final-result",
             z3.Implies(is_result, z3.And(z3.Not(rn), rvv == g["fail_ident"], en) if rvv is not None else False), prop=prop)
    p.oblige(f"{base}/exception-failure=>last_exception-is-the-final-exception",
             z3.Implies(is_excc, z3.And(z3.Not(en), evv == g["fail_ident"], rn) if evv is not None else False), prop=prop)
    if sval is not None:
        R_ = lambda n: it.enum_const(w.sr, n)
        p.oblige(f"{base}/final-failure-is-the-last-attempts-unless-aborted",
                 z3.Implies(z3.And(g["last_op_was_failure"], sval != R_("ABORTED")), g["fail_ident"] == g["last_op_ident"]), prop=prop)
    if sval is not None:
        p.oblige(f"{base}/next_sleep_s-iff-SCHEDULED",
                 z3.And(z3.Not(sn), z3.Not(nn) == (sval == R("SCHEDULED")),
                        z3.Implies(z3.Not(nn), nv == g["last_retry_sleep"]) if nv is not None else z3.BoolVal(True)), prop=prop)
        # delivered stop reason == the state's == the terminal event's
        rn2, rv2 = v.f["last_stop_reason"]
        p.oblige(f"{base}/stop_reason-is-the-recorded-one", z3.And(z3.Not(rn2), rv2 == sval) if rv2 is not None else False, prop=prop)
    else:
        p.oblige(f"{base}/stop_reason-set", False, prop=prop)
    stop_obligations(it, w, key, v, kind)
    p.oblige(f"{key}/exit/C13/aborted=>ABORTED", z3.Implies(z3.Or(g["aborted"], g["handler_aborted"]),
                                                           sval == R("ABORTED") if sval is not None else False), prop="C13")
    p.oblige(f"{key}/exit/C16/deferred=>SCHEDULED-with-the-delay",
             z3.Implies(g["deferred"], z3.And(sval == R("SCHEDULED"), z3.Not(nn), nv == g["handler_arg_s"]) if (sval is not None and nv is not None) else False),
             prop="C16")


def t_runner(it, runner, split=None):
    install(it, runner)
    key, is_async, is_exec = RUNNERS[runner]
    tree = it.tree

    def h(it):
        w = RetryWorld(it, is_async=is_async)
        w.state_obj = None
        # remember the state object created by the runner (first _RetryState constructed)
        def on_write(it_, o, attr, mode, node):
            if w.state_obj is None and o.cls is not None and o.cls.name == "_RetryState":
                w.state_obj = o
                w.state = o

        it.field_hooks.append(on_write)
        r = call_catch(it, FuncV(tree.func(key)), [], w.runner_kwargs(execute=is_exec))
        exit_obligations(it, w, key, is_exec, r)

    return h


def mk(runner):
    key = RUNNERS[runner][0]
    t = Task(f"runner.{runner}", lambda it: t_runner(it, runner),
             ["C01", "C02", "C03", "C04", "C05", "C09", "C10", "C11", "C12", "C13", "C14", "C15", "C16"], [key])
    t.weight = 20
    t.split_depth = 9
    t.split_chunks = 32
    return t


TASKS = [mk(r) for r in RUNNERS]


def t_call_with_timeout(it):
    """_call_with_timeout(func, timeout_s): the real body, run against a model of concurrent.futures / threading (trusted stdlib
    semantics), must satisfy the contract every call site assumes: func is started exactly once; if it finishes within the timeout its
    own outcome is delivered - the returned object, or the very exception object it raised, of ANY class (C04: no substitute; C13:
    KeyboardInterrupt/SystemExit/CancelledError are not lost) - and TimeoutError is raised only when it did not finish in time."""
    from pyvc.harness import call_catch as cc
    key = "redress.policy.runner.sync_core:_call_with_timeout"
    st = {}

    def run_worker(it_, thunk, swallow):
        """the worker thread: runs thunk unless the timeout expires first"""
        st["finished"] = it_.path.choose(2, "worker-finished-before-timeout") == 1
        if not st["finished"]:
            return
        try:
            st["value"] = it_.call_value(thunk, [], {})
        except PyRaise as e:
            if swallow:  # an exception escaping a Thread's target ends that thread (threading.excepthook); nobody else sees it
                st["lost"] = e.exc
            else:
                st["exc"] = e.exc

    def tpe(it_, args, kwargs, node):
        return Obj(None, {"submit": EnvFn("tpe.submit"), "shutdown": EnvFn("noop")})

    def submit(it_, fn, a, k, n):
        run_worker(it_, a[0], swallow=False)  # a Future stores whatever the callable raised, BaseException included
        return Obj(None, {"result": EnvFn("fut.result"), "cancel": EnvFn("noop"), "done": EnvFn("fut.done"), "exception": EnvFn("fut.exception")})

    def fut_result(it_, fn, a, k, n):
        if not st["finished"]:
            e = it_.make_exc("TimeoutError")  # concurrent.futures.TimeoutError is the builtin TimeoutError since Python 3.11
            e.tag = "futures-timeout"
            raise PyRaise(e)
        if "exc" in st:
            raise PyRaise(st["exc"])
        return st.get("value")

    def thread(it_, args, kwargs, node):
        return Obj(None, {"start": EnvFn("thr.start", attrs={"target": kwargs.get("target")}), "join": EnvFn("noop"),
                          "is_alive": EnvFn("thr.alive")})

    it.ext_models["concurrent.futures.ThreadPoolExecutor"] = tpe
    it.ext_models["threading.Thread"] = thread
    it.env_models["tpe.submit"] = submit
    it.env_models["fut.result"] = fut_result
    it.env_models["fut.done"] = lambda it_, fn, a, k, n: st["finished"]
    it.env_models["fut.exception"] = lambda it_, fn, a, k, n: st.get("exc")
    it.env_models["thr.start"] = lambda it_, fn, a, k, n: run_worker(it_, fn.attrs["target"], swallow=True)
    it.env_models["thr.alive"] = lambda it_, fn, a, k, n: not st["finished"]
    it.env_models["noop"] = lambda it_, fn, a, k, n: None
    stdlib.trusted("concurrent.futures.ThreadPoolExecutor / Future, threading.Thread",
                   "worker runs the callable once, to completion or not before the timeout; Future.result re-raises the stored exception "
                   "(any BaseException) or raises TimeoutError (= builtin TimeoutError, Python >= 3.11); an exception escaping a Thread target is lost")

    def op(it_, fn, a, k, n):
        st["calls"] = st.get("calls", 0) + 1
        if it_.path.choose(2, "op-outcome") == 1:
            e = it_.fresh_exc("op", origin="func")
            st["op_exc"] = e
            raise PyRaise(e)
        v = fref("op_value")
        st["op_value"] = v
        return v

    it.env_models["op"] = op

    def h(it):
        p = it.path
        st.clear()
        timeout = freal("timeout_s")
        p.assume(timeout.t > 0)
        r = cc(it, FuncV(it.tree.func(key)), [EnvFn("op"), timeout])
        p.oblige(f"{key}/ensures/func-started-at-most-once", st.get("calls", 0) <= 1, prop=None)
        if st.get("finished"):
            p.oblige(f"{key}/ensures/func-ran-once", st.get("calls", 0) == 1, prop=None)
            if "op_value" in st:
                p.oblige(f"{key}/ensures/returns-the-very-object-func-returned", r[0] == "ok" and r[1] is st["op_value"], prop=None,
                         detail=repr(r[1]))
                p.cover(f"{key}/value")
            else:
                e = st["op_exc"]
                p.oblige(f"{key}/ensures/raises-the-very-exception-func-raised-whatever-its-class", r[0] == "exc" and r[1] is e, prop=None,
                         detail={"delivered": repr(r[1]), "func_raised": repr(e), "lost_in_worker": "lost" in st})
                p.cover(f"{key}/exception")
        else:
            ok = r[0] == "exc" and r[1].tag == "raised-by-code" and r[1].cls_t is not None and \
                z3.is_true(z3.simplify(it.lattice.isinstance_cond(r[1].cls_t, TimeoutError)))
            p.oblige(f"{key}/ensures/TimeoutError-when-not-finished-in-time", ok, prop=None, detail=repr(r[1]))
            p.cover(f"{key}/timeout")

    return h


_t = Task("runner._call_with_timeout", t_call_with_timeout,
          ["C01", "C02", "C03", "C04", "C05", "C09", "C11", "C12", "C13", "C14", "C15", "C16"],
          ["redress.policy.runner.sync_core:_call_with_timeout"])
_t.replay_script = "call_with_timeout.py"
TASKS.append(_t)
