"""C17 — lock (monitor) discipline for Budget and CircuitBreaker.

Deductive part: every access to a guarded field happens while `self._lock` is held; the lock is never
re-acquired while held; no clock/user callback runs inside the critical section; each public method
enters at most one critical section and the lock is released on every exit.  Installed as hooks on the
executor while the C06/C07/C10 tasks run the real method bodies, so every path of every method is covered.

Audit part (syntactic, over the real class AST): the set of fields that can change after __init__
is exactly the declared guarded set; `_lock` is assigned once, in __init__, from threading.Lock().

Meta-theorem (trusted, not a VC): under this discipline each public operation is atomic at its
critical section, so every thread interleaving equals the sequential execution of the critical
sections in lock-acquisition order (each with the timestamp it sampled); one non-reentrant lock acquired
at most once per operation cannot deadlock.
"""
from __future__ import annotations

import ast

import z3

from pyvc.harness import Task
from pyvc.values import LockV, Obj

P = "C17"

GUARDED = {
    "redress.budget:Budget": {"_events"},
    "redress.circuit:CircuitBreaker": {"_state", "_opened_at", "_probe_in_flight", "_failures", "_class_failures"},
}
# read-only after __init__ (configuration); reads outside the lock are allowed
MUTATORS = {"append", "appendleft", "popleft", "pop", "clear", "update", "add", "remove", "discard", "extend",
            "insert", "setdefault", "popitem", "sort", "reverse"}


def install_monitor(it, obj: Obj, class_key: str):
    """Attach the discipline obligations to `obj` for the current path."""
    guarded = GUARDED[class_key]
    lock = obj.fields["_lock"]
    st = {"sections": 0}
    it.path.ghost["lock_monitor"] = st

    def field_hook(it_, o, attr, mode, node):
        if o is not obj or attr not in guarded:
            return
        fn = it_.frames[-1].func.key if it_.frames and it_.frames[-1].func else "?"
        if fn.endswith(".__init__"):
            return
        line = getattr(node, "lineno", "?")
        it_.path.oblige(f"{fn}/C17/guarded-{mode}-under-lock/{attr}@{line}", bool(lock.held), prop=P)

    def with_hook(it_, what, cm, node, env):
        if cm is not lock:
            return
        fn = env.func.key if env.func else "?"
        if what == "enter":
            it_.path.oblige(f"{fn}/C17/no-reacquire@{node.lineno}", not cm.held, prop=P)
            st["sections"] += 1

    it.field_hooks.append(field_hook)
    it.with_hooks.append(with_hook)
    return st


def clock_guard(it, lock: LockV, where: str):
    """called by clock/env models: no callback while the lock is held"""
    it.path.oblige(f"{where}/C17/no-callback-under-lock", not lock.held, prop=P)


def exit_obligations(it, obj, st, fn_key):
    lock = obj.fields["_lock"]
    it.path.oblige(f"{fn_key}/C17/lock-released-on-exit", lock.held is False, prop=P)
    it.path.oblige(f"{fn_key}/C17/at-most-one-critical-section", st["sections"] <= 1, prop=P)


# ---------------------------------------------------------------------------------------------
def _class_mutable_fields(ci):
    """fields assigned outside __init__ or mutated in place anywhere in the class body"""
    mut = set()
    init_assigned = {}
    for name, fi in ci.methods.items():
        for n in ast.walk(fi.node):
            targets = []
            if isinstance(n, ast.Assign):
                targets = n.targets
            elif isinstance(n, (ast.AugAssign, ast.AnnAssign)):
                targets = [n.target]
            for t in targets:
                for sub in ast.walk(t):
                    if (isinstance(sub, ast.Attribute) and isinstance(sub.value, ast.Name)
                            and sub.value.id == "self" and isinstance(sub.ctx, ast.Store)):
                        if name == "__init__":
                            init_assigned.setdefault(sub.attr, []).append(n)
                        else:
                            mut.add(sub.attr)
                    if (isinstance(sub, ast.Subscript) and isinstance(sub.value, ast.Attribute)
                            and isinstance(sub.value.value, ast.Name) and sub.value.value.id == "self"
                            and name != "__init__"):
                        mut.add(sub.value.attr)
            if isinstance(n, ast.Call) and isinstance(n.func, ast.Attribute) and n.func.attr in MUTATORS:
                base = n.func.value
                if (isinstance(base, ast.Attribute) and isinstance(base.value, ast.Name)
                        and base.value.id == "self" and name != "__init__"):
                    mut.add(base.attr)
            if isinstance(n, ast.Delete):
                for t in n.targets:
                    if isinstance(t, ast.Attribute) and isinstance(t.value, ast.Name) and t.value.id == "self":
                        mut.add(t.attr)
    return mut, init_assigned


def t_audit(it):
    tree = it.tree

    def h(it):
        for key, declared in GUARDED.items():
            ci = tree.cls(key)
            mut, init_assigned = _class_mutable_fields(ci)
            it.path.oblige(f"{key}/C17/audit/mutable-fields-are-guarded", mut <= declared, prop=P,
                           detail={"mutable": sorted(mut), "declared": sorted(declared)})
            it.path.oblige(f"{key}/C17/audit/guarded-fields-exist", declared <= set(init_assigned), prop=P)
            la = init_assigned.get("_lock", [])
            ok = (len(la) == 1 and isinstance(la[0].value, ast.Call)
                  and ast.unparse(la[0].value.func) in ("threading.Lock", "threading.RLock"))
            it.path.oblige(f"{key}/C17/audit/lock-assigned-once-in-init", ok and "_lock" not in mut, prop=P)
            # the lock is only ever used as `with self._lock:` (no bare acquire/release, no other lock)
            bad = []
            for name, fi in ci.methods.items():
                for n in ast.walk(fi.node):
                    if isinstance(n, ast.Attribute) and n.attr in ("acquire", "release", "locked"):
                        bad.append((name, n.lineno))
                    if isinstance(n, ast.With):
                        for item in n.items:
                            if ast.unparse(item.context_expr) != "self._lock":
                                bad.append((name, n.lineno))
                    if isinstance(n, (ast.Await, ast.Yield, ast.YieldFrom)):
                        bad.append((name, n.lineno))
            it.path.oblige(f"{key}/C17/audit/only-with-self._lock", not bad, prop=P, detail=bad)
            # no public method without a critical section touches guarded state: covered path-by-path by the monitor
            it.path.cover(f"{key}/C17/audit")

    return h


TASKS = [Task("locks.audit", t_audit, [P], [])]
TASKS[0].expect_covers = [f"{k}/C17/audit" for k in GUARDED]
TASKS[0].assumptions = [
    "C17 meta-theorem (trusted): lock discipline + threading.Lock mutual exclusion => each public operation is atomic at its "
    "critical section; interleavings equal the sequential order of critical sections; the schedule quantifier itself is not explored",
    "C17: timestamps are sampled before the lock is taken; the sequential contracts (C06/C07/C10) assume timestamps arrive "
    "non-decreasing in lock order, which threads do not guarantee (unchecked)",
]
