"""C20 - Retry-After hints: parsed safely (total, None or finite >= 0) - the honouring half is in strategies.py."""
from __future__ import annotations

import subprocess

import z3

from pyvc import ops, stdlib
from pyvc.harness import T, Task, call_catch, fbool, fint, freal, fref, fstr, fxfloat, xfloat_wf
from pyvc.interp import LoopSpec
from pyvc.interp_expr import PyRaise
from pyvc.ops import DBL_MAX_R, rterm, sterm, term, to_sfloat
from pyvc.path import Unsupported
from pyvc.values import (FIN, Absentable, AnyV, EnumVal, EnvFn, ExtV, FuncV, MethodRef, Obj, SeqV, SFloat, SOpt, Sym,
                         TimeDelta, fresh_name)

from .classifiers import ExcWorld, ec, seq_of_any

P = "C20"
M = "redress.extras.http"

WITNESS_CODE = r'''
import json
from email.utils import parsedate_to_datetime
out = {}
n = int('9' * 309)
out["int_of_309_digits_exceeds_float"] = n > 1.7976931348623157e308
try:
    float(n); out["float_of_it_overflows"] = False
except OverflowError:
    out["float_of_it_overflows"] = True
try:
    int('9' * 5000); out["int_of_5000_digits_valueerror"] = False
except ValueError:
    out["int_of_5000_digits_valueerror"] = True
try:
    parsedate_to_datetime('Mon, 01 Jan 99999999999999999999 00:00:00 GMT'); out["parsedate_overflows"] = False
except OverflowError:
    out["parsedate_overflows"] = True
except Exception as e:
    out["parsedate_overflows"] = type(e).__name__
for bad, key in (("garbage", "parsedate_garbage"), ("", "parsedate_empty")):
    try:
        parsedate_to_datetime(bad); out[key] = "returned"
    except Exception as e:
        out[key] = type(e).__name__
print(json.dumps(out))
'''


def witnesses():
    import json
    r = subprocess.run(["/venv/bin/python", "-c", WITNESS_CODE], capture_output=True, text=True)
    try:
        return json.loads(r.stdout.strip().splitlines()[-1])
    except Exception:
        return {"error": r.stderr[-500:]}


def install(it):
    stdlib.install_clock(it)
    stdlib.install_math(it)

    def strip(it_, obj, args, node):
        if isinstance(obj, str):
            return obj.strip()
        return fstr("stripped")

    it.ext_models["str.strip"] = strip
    it.ext_models["str.lower"] = lambda it_, obj, args, node: obj.lower() if isinstance(obj, str) else fstr("lower")

    def to_int(it_, v, node):
        # int(str): ValueError, or any integer (no bound: '9'*309 is accepted; > 4300 digits is a ValueError)
        if it_.path.choose(2, "int()") == 0:
            it_.raise_builtin("ValueError", node)
        return fint("parsed_int")

    it.ext_models["int()"] = to_int

    def float_int(it_, v, node):
        n = z3.ToReal(v.t)
        if it_.path.branch(z3.Or(n > DBL_MAX_R, n < -DBL_MAX_R)):
            it_.raise_builtin("OverflowError", node)
        return ops.wrap_real(n)

    it.ext_models["float(int)"] = float_int

    def parsedate(it_, args, kwargs, node):
        c = it_.path.choose(6, "parsedate")
        if c < 4:
            it_.raise_builtin(["TypeError", "ValueError", "IndexError", "OverflowError"][c], node)
        if c == 4:
            return None
        return Obj(None, {"tzinfo": SOpt(z3.Bool(fresh_name("naive")), fref("tz")), "_ts": freal("parsed_ts")}, tag="datetime")

    it.ext_models["email.utils.parsedate_to_datetime"] = parsedate
    it.ext_models["datetime.datetime.now"] = lambda it_, a, k, n: Obj(None, {"tzinfo": fref("utc"), "_ts": freal("wall_now")}, tag="datetime")
    it.attr_models["replace"] = lambda it_, o, attr, node: EnvFn("datetime.replace", attrs={"o": o})
    it.env_models["datetime.replace"] = lambda it_, fn, a, k, n: Obj(None, {"tzinfo": k.get("tzinfo"), "_ts": fn.attrs["o"].fields["_ts"]}, tag="datetime")
    orig_binop = it.binop

    def binop(op, a, b, node=None):
        if isinstance(a, Obj) and a.tag == "datetime" and isinstance(b, Obj) and b.tag == "datetime" and op == "-":
            # aware - aware; naive - aware raises TypeError (the code makes `a` aware first)
            an = T(it.is_none(a.fields["tzinfo"]))
            if it.path.branch(an):
                it.raise_builtin("TypeError", node)
            return TimeDelta(z3.simplify(term(a.fields["_ts"]) - term(b.fields["_ts"])))
        return orig_binop(op, a, b, node)

    it.binop = binop
    stdlib.trusted("int(str)", "raises ValueError or returns an integer of any magnitude (witness: '9'*309 > DBL_MAX)")
    stdlib.trusted("float(int)", "raises OverflowError iff |n| > DBL_MAX (witnessed), else exact")
    stdlib.trusted("email.utils.parsedate_to_datetime", "returns a datetime (or None) or raises one of TypeError, ValueError, IndexError, "
                                                         "OverflowError (the last witnessed with a 20-digit year)")
    stdlib.trusted("datetime arithmetic", "aware - aware yields a timedelta whose total_seconds() is a finite float; datetime.now(UTC) is aware")


def t_witness(it):
    def h(it):
        w = witnesses()
        p = it.path
        for k in ("int_of_309_digits_exceeds_float", "float_of_it_overflows", "int_of_5000_digits_valueerror"):
            p.oblige(f"C20/witness/{k}", w.get(k) is True, prop=P, detail=w)
        p.oblige("C20/witness/parsedate_overflows", w.get("parsedate_overflows") is True, prop=P, detail=w)
        p.cover("C20/witness")

    return h


def t_parse(it):
    install(it)
    key = f"{M}:_parse_retry_after"

    def h(it):
        p = it.path
        value = fstr("value")
        r = call_catch(it, FuncV(it.tree.func(key)), [value])
        if r[0] == "exc":
            p.oblige(f"{key}/raises/none", False, prop=P, detail=repr(r[1]))
            p.cover(f"{key}/raises")
            return
        res = r[1]
        if res is None:
            p.cover(f"{key}/returns-None")
            return
        sf = to_sfloat(res)
        p.oblige(f"{key}/ensures/finite-nonnegative", z3.And(sf.k == FIN, sf.v >= 0), prop=P)
        p.cover(f"{key}/returns-seconds")

    return h


def t_parse_values(it):
    """value semantics of the two branches (separate from totality so each obligation names one clause)"""
    install(it)
    key = f"{M}:_parse_retry_after"
    seen = {}
    orig_int = it.ext_models["int()"]

    def to_int(it_, v, node):
        r = orig_int(it_, v, node)
        it_.path.ghost["parsed_int"] = r
        return r

    it.ext_models["int()"] = to_int
    orig_bin = it.binop

    def binop(op, a, b, node=None):
        r = orig_bin(op, a, b, node)
        if isinstance(r, TimeDelta):
            it.path.ghost["delta"] = r
        return r

    it.binop = binop

    def h(it):
        p = it.path
        value = fstr("value")
        r = call_catch(it, FuncV(it.tree.func(key)), [value])
        if r[0] == "exc" or r[1] is None:
            return
        sf = to_sfloat(r[1])
        n = p.ghost.get("parsed_int")
        d = p.ghost.get("delta")
        if n is not None:
            nv = z3.ToReal(n.t)
            p.oblige(f"{key}/ensures/decimal-integer-n-gives-max(0,n)", sf.v == z3.If(nv > 0, nv, 0), prop=P)
            p.cover(f"{key}/integer")
        elif d is not None:
            p.oblige(f"{key}/ensures/http-date-gives-time-until-date-clamped-at-0", sf.v == z3.If(d.s > 0, d.s, 0), prop=P)
            p.cover(f"{key}/date")
        else:
            p.oblige(f"{key}/ensures/value-comes-from-integer-or-date", False, prop=P)

    return h


# ---------------------------------------------------------------------------------------------
class Headers:
    """opaque header container: any shape; every operation may raise any Exception"""


def install_headers(it):
    def maybe_raise(it_, what):
        if it_.path.choose(2, what) == 1:
            e = it_.fresh_exc(what)
            it_.path.assume(it_.lattice.isinstance_cond(e.cls_t, Exception))
            raise PyRaise(e)

    def any_getattr(it_, v, attr, default, node):
        # getattr(container, "get"/"items"/"headers", default): absent, or some attribute value
        if it_.path.choose(2, f"hasattr-{attr}") == 0:
            return default
        if attr in ("get", "items"):
            if it_.path.choose(2, f"{attr}-callable") == 0:
                nc = it_.fresh_any(attr + "_noncallable")
                nc.callable_flag = z3.BoolVal(False)
                return nc
            return EnvFn("hdr." + attr)
        return it_.fresh_any(attr)

    it.ext_models["any_getattr"] = any_getattr
    it.ext_models["any_is_mapping"] = lambda it_, v: ops.wrap_bool(z3.And(v.tag == it_.any_tags["Object"], mapping_flag(it_, v))) if False else \
        z3.And(it_.any_is(v, "Container", "Object"), mapping_flag(it_, v))

    def hdr_get(it_, fn, args, kwargs, node):
        maybe_raise(it_, "get")
        return it_.fresh_any("hdr_value")

    def hdr_items(it_, fn, args, kwargs, node):
        maybe_raise(it_, "items")
        return pair_seq(it_, "items")

    it.env_models["hdr.get"] = hdr_get
    it.env_models["hdr.items"] = hdr_items

    # a Mapping's .get/.items go through MethodRef on AnyV
    orig_getattr = it.getattr_value

    def str_model(it_, v, node):
        if isinstance(v, AnyV):
            if it_.path.branch(v.tag == it_.any_tags["Str"]):
                return Sym(v.s, "str")
            maybe_raise(it_, "str()")
            return fstr("str_of")
        raise Unsupported(f"str({v!r})")

    it.ext_models["str()"] = str_model
    orig_to_str = it.to_str

    def to_str(v, node):
        if isinstance(v, AnyV):
            return str_model(it, v, node)
        return orig_to_str(v, node)

    it.to_str = to_str
    stdlib.trusted("header containers", "any shape (None, Mapping, object with get/items, iterable of pairs); every operation on them may "
                                        "raise any Exception subclass (not a non-Exception BaseException)")


def mapping_flag(it, v):
    if not hasattr(v, "is_mapping"):
        v.is_mapping = z3.Bool(fresh_name("is_mapping"))
    return v.is_mapping


def pair_seq(it, name):
    a = seq_of_any(it, name + "_k")
    b = seq_of_any(it, name + "_v")
    return SeqV(a.length, lambda i: (a.elem(i), b.elem(i)), name)


def t_lookup_header(it):
    install(it)
    install_headers(it)
    key = f"{M}:_lookup_header"
    triv = lambda: LoopSpec(lambda it_, env, idx, ctx: [("trivial", z3.BoolVal(True))], prop=P, modifies=lambda it_, env, ctx: [])
    for k in (1, 2, 3):
        it.loop_specs[(key, k)] = triv()
    it.loop_specs[(M + ":*", "*")] = triv()  # the same scan loop extracted into a helper keeps its (trivial) spec
    # iteration over the container itself: cast(Iterable, headers) -> a sequence of pairs, or raises
    it.ext_models["typing.cast"] = lambda it_, a, k, n: iter_model(it_, a[1])

    def iter_model(it_, v):
        if isinstance(v, AnyV):
            if it_.path.choose(2, "iter") == 1:
                e = it_.fresh_exc("iter")
                it_.path.assume(it_.lattice.isinstance_cond(e.cls_t, Exception))
                raise PyRaise(e)
            return pair_seq(it_, "iter")
        return v

    def h(it):
        p = it.path
        headers = it.fresh_any("headers")
        r = call_catch(it, FuncV(it.tree.func(key)), [headers, "Retry-After"])
        if r[0] == "exc":
            p.oblige(f"{key}/raises/none", False, prop=P, detail=repr(r[1]))
            p.cover(f"{key}/raises")
            return
        res = r[1]
        p.oblige(f"{key}/ensures/None-or-str", res is None or isinstance(res, str) or (isinstance(res, Sym) and res.ty == "str"), prop=P)
        p.cover(f"{key}/returns-{'None' if res is None else 'str'}")

    # Mapping branch: headers.get(...) / headers.items() on an AnyV
    orig_getattr = it.getattr_value

    def getattr_value(obj, attr, node=None, default=None.__class__):
        o = it.force(obj) if not isinstance(obj, AnyV) else obj
        if isinstance(o, AnyV) and attr in ("get", "items") and default is None.__class__:
            # attribute access `headers.get` inside the Mapping branch
            return EnvFn("hdr." + attr)
        return orig_getattr(obj, attr, node) if default is None.__class__ else orig_getattr(obj, attr, node, default)

    it.getattr_value = getattr_value
    return h


def t_coerce_retry_after(it):
    install(it)
    install_headers(it)
    key = f"{M}:_coerce_retry_after"

    def parse_contract(it_, fv, args, kwargs, node):
        # contract of _parse_retry_after (task extras.http._parse_retry_after): None or finite >= 0, never raises
        if it_.path.choose(2, "parse") == 0:
            return None
        x = freal("parsed")
        it_.path.assume(x.t >= 0)
        return x

    def lookup_contract(it_, fv, args, kwargs, node):
        if it_.path.choose(2, "lookup") == 0:
            return None
        return fstr("header_value")

    it.contracts[f"{M}:_parse_retry_after"] = parse_contract
    it.contracts[f"{M}:_lookup_header"] = lookup_contract

    def h(it):
        p = it.path
        w = ExcWorld(it)
        r = call_catch(it, FuncV(it.tree.func(key)), [w.exc])
        if r[0] == "exc":
            p.oblige(f"{key}/raises/none", False, prop=P, detail=repr(r[1]))
            p.cover(f"{key}/raises")
            return
        res = r[1]
        if res is None:
            p.cover(f"{key}/returns-None")
            return
        sf = to_sfloat(res)
        p.oblige(f"{key}/ensures/nonnegative", z3.Or(sf.k == 1, z3.And(sf.k == FIN, sf.v >= 0), sf.k == 3) if False else
                 z3.And(z3.Or(sf.k == FIN, sf.k == 1), z3.Implies(sf.k == FIN, sf.v >= 0)), prop=P)
        p.cover(f"{key}/returns-seconds")

    return h


def t_http_retry_after_classifier(it):
    install(it)
    key = f"{M}:http_retry_after_classifier"

    def http_contract(it_, fv, args, kwargs, node):
        k = it_.fresh_enum(it_.tree.cls("redress.errors:ErrorClass"), "http_klass")
        it_.path.ghost["http_klass"] = k
        return k

    def coerce_contract(it_, fv, args, kwargs, node):
        it_.path.ghost["coerce_calls"] = it_.path.ghost.get("coerce_calls", 0) + 1
        if it_.path.choose(2, "coerce") == 0:
            return None
        x = freal("retry_after")
        it_.path.assume(x.t >= 0)
        it_.path.ghost["coerced"] = x
        return x

    it.contracts[f"{M}:http_classifier"] = http_contract
    it.contracts[f"{M}:_coerce_retry_after"] = coerce_contract

    def h(it):
        p = it.path
        w = ExcWorld(it)
        r = call_catch(it, FuncV(it.tree.func(key)), [w.exc])
        if r[0] == "exc":
            p.oblige(f"{key}/raises/none", False, prop=P, detail=repr(r[1]))
            return
        res = r[1]
        k = p.ghost["http_klass"]
        rl = ec(it, "RATE_LIMIT")
        if isinstance(res, EnumVal):
            p.oblige(f"{key}/ensures/class-unchanged", res.t == k.t, prop=P)
            p.oblige(f"{key}/ensures/no-hint=>plain-class", z3.Or(k.t != rl, z3.BoolVal(p.ghost.get("coerced") is None)), prop=P)
            p.cover(f"{key}/plain")
        else:
            f = res.fields
            p.oblige(f"{key}/ensures/hint-only-for-RATE_LIMIT", z3.And(k.t == rl, f["klass"].t == k.t), prop=P)
            p.oblige(f"{key}/ensures/hint-is-the-parsed-nonnegative-value",
                     z3.And(rterm(f["retry_after_s"]) == p.ghost["coerced"].t, rterm(f["retry_after_s"]) >= 0), prop=P)
            p.cover(f"{key}/with-hint")

    return h


TASKS = [
    Task("extras.http.witnesses", t_witness, [P], []),
    Task("extras.http._parse_retry_after", t_parse, [P], [f"{M}:_parse_retry_after"]),
    Task("extras.http._parse_retry_after[values]", t_parse_values, [P], [f"{M}:_parse_retry_after"]),
    Task("extras.http._lookup_header", t_lookup_header, [P], [f"{M}:_lookup_header"]),
    Task("extras.http._coerce_retry_after", t_coerce_retry_after, [P], [f"{M}:_coerce_retry_after"]),
    Task("extras.http.http_retry_after_classifier", t_http_retry_after_classifier, [P], [f"{M}:http_retry_after_classifier"]),
]
for _t in TASKS:
    _t.assumptions = ["C20: header containers and attribute values range over the Any sort; container operations raise only Exception subclasses; "
                      "stdlib parsing functions behave per their assumed-and-witnessed contracts"]
