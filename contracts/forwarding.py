"""C12 - all entry points agree.

1. Forwarding lemmas: every sugar entry point (RetryPolicy, AsyncRetryPolicy, the four context managers, the @retry
   decorator's wrappers, Retry/AsyncRetry.call/execute -> run_* -> _run_*, constructors) performs exactly one call of
   its target in which every parameter of the target is bound to the wrapper's own parameter/field of the same name
   (or to the documented resolution call-level-else-policy-level), and returns/raises exactly what the target does.
2. Twin equivalence by aligned co-execution (product proof): the sync and async versions of each pair are executed
   symbolically under the *same* decisions and the same fresh-symbol numbering (shared environment oracle); every path
   must yield the same decision sequence, path condition, interaction trace, final delivery and post-state.  Loops are
   cut by the shared invariant, so the proof is per iteration (unbounded in the number of attempts).
3. call == execute up to delivery: co-execution of _run_sync_call and _run_sync_execute with the delivery relation.
"""
from __future__ import annotations

import ast

import z3

from pyvc import ops, stdlib
from pyvc.harness import T, Task, call_catch, fbool, fint, fopt, freal, fref, fstr
from pyvc.interp_expr import PyRaise
from pyvc.values import (BoundV, ClassV, EnumVal, EnvFn, FuncV, LambdaV, Obj, Ref, SOpt, Sym, fresh_name)

from . import policy as pol
from . import runners, sleepaction
from . import stateview as sv
from .state import install_state_contracts
from .world import G, RetryWorld, W, same_tr, tr

P = "C12"


# ---------------------------------------------------------------------------------------------
#  2. twins by aligned co-execution
# ---------------------------------------------------------------------------------------------
def ghost_snapshot(it):
    g = G(it)
    return {k: v for k, v in g.v.items()}


def runner_harness(runner):
    key, is_async, is_exec = runners.RUNNERS[runner]

    def h(it):
        w = RetryWorld(it, is_async=is_async)
        w.twin = True
        w.state_obj = None

        def on_write(it_, o, attr, mode, node):
            if w.state_obj is None and o.cls is not None and o.cls.name == "_RetryState":
                w.state_obj = o
                w.state = o

        it.field_hooks = [on_write] + [f for f in it.field_hooks if getattr(f, "__name__", "") == "reason_write"]
        r = call_catch(it, FuncV(it.tree.func(key)), [], w.runner_kwargs(execute=is_exec))
        if r[0] == "ok":
            v = r[1]
            if isinstance(v, tuple) and v and v[0] == "coro_done":
                v = v[1]
            out = ("ok", v)
        else:
            out = ("exc", r[1])
        return {"out": out, "ghost": ghost_snapshot(it), "state": sv.View(it, w.state_obj) if w.state_obj is not None else None}

    return h


def deliver_terms(out):
    kind, v = out
    if kind == "exc":
        e = v
        if e.cls is not None and e.cls.name == "RetryExhaustedError":
            return ("ree",) + tuple(tr(e.fields[k]) for k in ("stop_reason", "attempts", "last_class", "last_exception", "last_result", "next_sleep_s"))
        if e.cls is not None or e.tag in ("raised-by-code", "sleep_fn-invalid-return", "library-abort"):
            # an exception object constructed by the library itself: compared by class (its identity is a creation site)
            return ("exc", e.tag, tr(e.cls_t), "library-created")
        return ("exc", e.tag, tr(e.cls_t), tr(e.ident))
    if isinstance(v, Obj) and v.cls is not None and v.cls.name == "RetryOutcome":
        return ("outcome",) + tuple(tr(v.fields[k]) for k in ("ok", "value", "stop_reason", "attempts", "last_class", "last_exception",
                                                               "last_result", "cause", "next_sleep_s"))
    return ("value", tr(v))


def compare_twins(base):
    def compare(it, a, b, p):
        # (the two bodies need not branch alike: B runs under A's path condition and environment choices)
        p.oblige(f"{base}/same-environment-interaction-order", b.get("guide_mismatch") is None, prop=P, detail=b.get("guide_mismatch"))
        p.oblige(f"{base}/same-path-end", a["end"] == b["end"] or b.get("guide_mismatch") is not None, prop=P,
                 detail={"a": a["end"], "b": b["end"]})
        ta, tb = a["trace"], b["trace"]
        same = len(ta) == len(tb) and all(x[0] == y[0] and same_tr(x[1], y[1]) for x, y in zip(ta, tb))
        first = next((i for i, (x, y) in enumerate(zip(ta, tb)) if x[0] != y[0] or not same_tr(x[1], y[1])), None)
        p.oblige(f"{base}/same-interaction-trace", same, prop=P,
                 detail={"len": (len(ta), len(tb)), "first_diff": first, "a": str(ta[first])[:200] if first is not None else None,
                         "b": str(tb[first])[:200] if first is not None else None})
        oa, ob = a["out"], b["out"]
        if oa is None or ob is None:
            p.oblige(f"{base}/both-reach-an-exit-or-the-back-edge", (oa is None) == (ob is None), prop=P)
        else:
            p.oblige(f"{base}/same-final-delivery", same_tr(deliver_terms(oa["out"]), deliver_terms(ob["out"])), prop=P,
                     detail={"a": str(deliver_terms(oa["out"]))[:200], "b": str(deliver_terms(ob["out"]))[:200]})
            ga, gb = oa["ghost"], ob["ghost"]
            p.oblige(f"{base}/same-ghost-counters", all(same_tr(tr(ga[k]), tr(gb[k])) for k in ga), prop=P,
                     detail=[k for k in ga if not same_tr(tr(ga[k]), tr(gb[k]))][:8])
        p.cover(f"{base}/path-compared")

    return compare


def compare_product(base):
    def compare(it, a, b, p):
        ta, tb = a["trace"], b["trace"]
        same = len(ta) == len(tb) and all(x[0] == y[0] and same_tr(x[1], y[1]) for x, y in zip(ta, tb))
        first = next((i for i, (x, y) in enumerate(zip(ta, tb)) if x[0] != y[0] or not same_tr(x[1], y[1])), None)
        if first is None and len(ta) != len(tb):
            first = min(len(ta), len(tb))
        p.oblige(f"{base}/same-interaction-trace", same, prop=P,
                 detail=None if same else {"len": (len(ta), len(tb)), "first_diff": first, "a": str(ta[first:first + 1])[:200],
                                           "b": str(tb[first:first + 1])[:200], "pair": p.path_id})
        oa, ob = a["out"], b["out"]
        if oa is None or ob is None:
            p.oblige(f"{base}/both-reach-an-exit", (oa is None) == (ob is None), prop=P)
            return
        p.oblige(f"{base}/same-final-delivery", same_tr(deliver_terms(oa["out"]), deliver_terms(ob["out"])), prop=P,
                 detail={"a": str(deliver_terms(oa["out"]))[:200], "b": str(deliver_terms(ob["out"]))[:200], "pair": p.path_id})
        ga, gb = oa["ghost"], ob["ghost"]
        p.oblige(f"{base}/same-ghost-counters", all(same_tr(tr(ga[k]), tr(gb[k])) for k in ga), prop=P,
                 detail=[k for k in ga if not same_tr(tr(ga[k]), tr(gb[k]))][:8])
        p.cover(f"{base}/pair-compared")

    return compare


def t_twin_runners(it, kind):
    """_run_sync_<kind> vs _run_async_<kind>"""
    a, b = f"sync_{kind}", f"async_{kind}"
    # one interpreter serves both sides: install both runners' loop specs and hooks
    runners.install(it, a)
    runners.install(it, b)
    return ("pair", runner_harness(a), runner_harness(b), compare_twins(f"C12/twin/_run_sync_{kind}~_run_async_{kind}"))


def sa_harness(is_async):
    key = sleepaction.K_ASYNC if is_async else sleepaction.K_SYNC

    def h(it):
        from .world import Ghost
        w = RetryWorld(it, is_async=is_async)
        w.twin = True
        st = sv.make_state(it, w)
        g = Ghost(it, fresh=True, prefix="pre")
        it.path.ghost["G"] = g
        it.path.ghost["now"] = g["now"]
        attempt = fint("attempt")
        w.attempt = attempt
        ctx = sv.fresh_ctx(it, attempt)
        decision = Obj(it.tree.cls("redress.policy.state:_RetryDecision"), {"action": "retry", "sleep_s": freal("sleep_s"), "context": ctx},
                       frozen=True)
        r = call_catch(it, FuncV(it.tree.func(key)), [], {"state": st, "attempt": attempt, "decision": decision,
                                                         "sleep_fn": w.sleep_fn, "before_sleep": w.before_sleep, "sleeper": w.sleeper})
        if r[0] == "ok":
            v = r[1]
            if isinstance(v, tuple) and v and v[0] == "coro_done":
                v = v[1]
            out = ("ok", v)
        else:
            out = ("exc", r[1])
        return {"out": out, "ghost": ghost_snapshot(it), "state": sv.View(it, st)}

    return h


def t_twin_sleep_action(it):
    install_state_contracts(it)
    return ("pair", sa_harness(False), sa_harness(True), compare_twins("C12/twin/_sync_sleep_action~_async_sleep_action"))


def policy_harness(flavour, kind, with_retry):
    key = pol.ENTRY[(flavour, kind)]

    def h(it):
        p = it.path
        with_breaker = bool(p.choose(2, "breaker-configured"))
        w = pol.PW(it, flavour, with_retry, with_breaker)
        w.twin = True
        kwargs = dict(w.kwargs)
        if kind == "execute":
            kwargs["capture_timeline"] = fopt("capture_timeline", fbool("capture_timeline"))
        r = call_catch(it, BoundV(w.policy, FuncV(it.tree.func(key))), [w.func], kwargs)
        if r[0] == "ok":
            v = r[1]
            if isinstance(v, tuple) and v and v[0] == "coro_done":
                v = v[1]
            out = ("ok", v)
        else:
            out = ("exc", r[1])
        it.path.trace.extend(("breaker." + k, (tr(c),)) for k, c in w.records)
        it.path.trace.extend(("breaker-event", (tr(e[0]), tr(e[1]), tr(e[2]))) for e in w.events)
        return {"out": out, "ghost": {"allow": w.allow_calls, "func": w.func_calls, "retry": w.retry_calls, "bstate": w.bstate.t, "probe": w.probe},
                "state": None}

    return h


def t_twin_policy(it, kind, with_retry):
    pol.install(it)
    # CancelledError is the one intended difference: the async policy records a cancel for it in its own handler, the
    # sync policy reaches the same record through ensure_settled - the traces (records) must still agree.
    return ("product", policy_harness("sync", kind, with_retry), policy_harness("async", kind, with_retry),
            compare_product(f"C12/twin/Policy.{kind}~AsyncPolicy.{kind}[{'retry' if with_retry else 'no-retry'}]"))


# ---------------------------------------------------------------------------------------------
#  3. call == execute up to delivery
# ---------------------------------------------------------------------------------------------
def eq_formula(x, y):
    """z3 formula stating that two canonical trace values are equal (None if structurally incomparable)"""
    if isinstance(x, z3.ExprRef) and isinstance(y, z3.ExprRef):
        if x.eq(y):
            return z3.BoolVal(True)
        if x.sort() == y.sort():
            return x == y
        return z3.BoolVal(False)
    if isinstance(x, tuple) and x and x[0] == "opt" and not (isinstance(y, tuple) and y and y[0] == "opt"):
        if y is None:
            return x[1]
        inner = eq_formula(x[2], y)
        return z3.And(z3.Not(x[1]), inner) if inner is not None else None
    if isinstance(y, tuple) and y and y[0] == "opt" and not (isinstance(x, tuple) and x and x[0] == "opt"):
        return eq_formula(y, x)
    if isinstance(x, tuple) and isinstance(y, tuple):
        if x and y and x[0] == "opt" and y[0] == "opt":
            inner = eq_formula(x[2], y[2]) if (x[2] is not None and y[2] is not None) else z3.BoolVal(x[2] is None and y[2] is None)
            return z3.Or(z3.And(x[1], y[1]), z3.And(z3.Not(x[1]), z3.Not(y[1]), inner))
        if len(x) != len(y):
            return z3.BoolVal(False)
        parts = [eq_formula(u, v) for u, v in zip(x, y)]
        if any(q is None for q in parts):
            return None
        return z3.And(parts) if parts else z3.BoolVal(True)
    if isinstance(x, z3.ExprRef) or isinstance(y, z3.ExprRef):
        zx, other = (x, y) if isinstance(x, z3.ExprRef) else (y, x)
        if isinstance(other, bool) and zx.sort() == z3.BoolSort():
            return zx == other
        if isinstance(other, int) and not isinstance(other, bool) and zx.sort() == z3.IntSort():
            return zx == other
        if isinstance(other, (int, float)) and not isinstance(other, bool) and zx.sort() == z3.RealSort():
            from pyvc.ops import rv
            return zx == rv(other)
        if isinstance(other, str) and zx.sort() == z3.StringSort():
            return zx == z3.StringVal(other)
        return z3.BoolVal(False)
    return z3.BoolVal(x == y)


COMPARED_KINDS_CALL_EXECUTE = {"func", "abort_if", "classifier", "result_classifier", "strategy", "sleep_fn", "before_sleep", "sleep",
                               "budget.consume", "emit", "_handle_failure", "sleep_action"}


def compare_call_execute(base):
    def compare(it, a, b, p):
        # attempt hooks are not among the kinds C12 compares between call() and execute()
        ta = [x for x in a["trace"] if x[0] in COMPARED_KINDS_CALL_EXECUTE]
        tb = [x for x in b["trace"] if x[0] in COMPARED_KINDS_CALL_EXECUTE]
        same = len(ta) == len(tb) and all(x[0] == y[0] and same_tr(x[1], y[1]) for x, y in zip(ta, tb))
        first = next((i for i, (x, y) in enumerate(zip(ta, tb)) if x[0] != y[0] or not same_tr(x[1], y[1])), None)
        if first is None and len(ta) != len(tb):
            first = min(len(ta), len(tb))
        p.oblige(f"{base}/same-invocations-strategy-calls-sleeps-events-budget", same, prop=P,
                 detail={"len": (len(ta), len(tb)), "first_diff": first, "a": str(ta[first])[:200] if first is not None and first < len(ta) else None,
                         "b": str(tb[first])[:200] if first is not None and first < len(tb) else None})
        oa, ob = a["out"], b["out"]
        if oa is None or ob is None:
            p.oblige(f"{base}/both-reach-an-exit-or-the-back-edge", (oa is None) == (ob is None) and a["end"] == b["end"], prop=P,
                     detail={"a": a["end"], "b": b["end"]})
            return
        ca, cb = oa["out"], ob["out"]
        # delivery relation
        ok = False
        why = None
        if ca[0] == "ok":
            o = cb[1] if cb[0] == "ok" else None
            ok = o is not None and isinstance(o, Obj) and o.fields.get("ok") is True and o.fields["value"] is not None and same_tr(tr(o.fields["value"]), tr(ca[1]))
            why = "returns v <-> ok and value is v"
        else:
            e = ca[1]
            if e.cls is not None and e.cls.name == "RetryExhaustedError":
                o = cb[1] if cb[0] == "ok" else None
                if o is not None and isinstance(o, Obj) and o.fields.get("ok") is False:
                    parts = [eq_formula(tr(e.fields[k]), tr(o.fields[k])) for k in ("stop_reason", "attempts", "last_class", "last_result", "next_sleep_s")]
                    ok = z3.And(parts) if all(q is not None for q in parts) else False
                else:
                    ok = False
                why = "RetryExhaustedError(f) <-> outcome fields f"
            elif e.cls is not None and e.cls.name == "AbortRetryError":
                o = cb[1] if cb[0] == "ok" else None
                if o is not None and isinstance(o, Obj) and o.fields.get("ok") is False:
                    sr_cls = it.tree.cls("redress.errors:StopReason")
                    ok = eq_formula(tr(o.fields["stop_reason"]), it.enum_const(sr_cls, "ABORTED"))
                else:
                    ok = False
                why = "AbortRetryError <-> stop_reason ABORTED"
            elif e.tag == "func":
                # the operation's own exception: either execute reports it (ordinary failure) or lets the same object escape
                if cb[0] == "ok":
                    o = cb[1]
                    le = o.fields.get("last_exception") if isinstance(o, Obj) else None
                    sr_ = o.fields.get("stop_reason") if isinstance(o, Obj) else None
                    aborted = isinstance(sr_, EnumVal) and it.enum_concrete_name(sr_) == "ABORTED"
                    if isinstance(o, Obj) and o.fields.get("ok") is False:
                        ok = True if aborted else (eq_formula(tr(le), tr(e.ident)) if le is not None else False)
                    else:
                        ok = False
                    why = "raises the operation's e <-> not ok and last_exception is e (or ABORTED for an AbortRetryError)"
                else:
                    ok = cb[1] is e or same_tr(tr(cb[1].ident), tr(e.ident))
                    why = "a propagating exception propagates from both"
            elif e.tag == "raised-by-code" and cb[0] == "ok" and isinstance(cb[1], Obj) and cb[1].fields.get("ok") is False:
                # degenerate configuration max_attempts < 1: call() has no exception to re-raise and raises RuntimeError("Retry attempts
                # exhausted with no captured exception"); execute() reports MAX_ATTEMPTS_GLOBAL with attempts == 0 - the same outcome
                sr_cls = it.tree.cls("redress.errors:StopReason")
                ok = z3.And(it.lattice.isinstance_cond(e.cls_t, RuntimeError),
                            eq_formula(tr(cb[1].fields["stop_reason"]), it.enum_const(sr_cls, "MAX_ATTEMPTS_GLOBAL")),
                            eq_formula(tr(cb[1].fields["attempts"]), 0))
                why = "no attempts at all: RuntimeError <-> MAX_ATTEMPTS_GLOBAL with attempts == 0"
            else:
                if e.tag in ("raised-by-code", "sleep_fn-invalid-return"):
                    # an exception object constructed by the library on both sides: same class, same origin
                    ok = cb[0] == "exc" and cb[1].tag == e.tag and same_tr(tr(cb[1].cls_t), tr(e.cls_t))
                else:
                    ok = cb[0] == "exc" and cb[1].tag == e.tag and same_tr(tr(cb[1].ident), tr(e.ident))
                why = "any other escaping exception <-> the same exception escapes"
        p.oblige(f"{base}/delivery-relation", ok, prop=P, detail={"why": why, "call": str(deliver_terms(ca))[:160], "execute": str(deliver_terms(cb))[:160]})
        p.cover(f"{base}/path-compared")

    return compare


def t_call_vs_execute(it, flavour):
    a, b = f"{flavour}_call", f"{flavour}_execute"
    runners.install(it, a)
    runners.install(it, b)
    return ("product", runner_harness(a), runner_harness(b), compare_call_execute(f"C12/call~execute/_run_{flavour}"))


# ---------------------------------------------------------------------------------------------
#  1. forwarding lemmas
# ---------------------------------------------------------------------------------------------
PARAMS_CALL = ["on_metric", "on_log", "operation", "abort_if", "sleep", "before_sleep", "sleeper", "on_attempt_start", "on_attempt_end"]


def fresh_args(names):
    return {n: EnvFn("arg:" + n) if n != "operation" else fstr("operation") for n in names}


def target_params(it, key):
    fn = it.tree.func(key).node
    a = fn.args
    return [p.arg for p in a.args if p.arg not in ("self", "cls")] + [p.arg for p in a.kwonlyargs]


def t_forward_sugar(it):
    """RetryPolicy/AsyncRetryPolicy.call/execute/context -> Policy/AsyncPolicy; context managers -> policy.call"""
    stdlib.install_clock(it)
    captured = {}

    def target(name, is_async, ret_kind="value"):
        def h(it_, fv, args, kwargs, node):
            captured["call"] = (name, args, kwargs)
            c = it_.path.choose(2, "target")
            if c == 1:
                e = it_.fresh_exc("target", origin="target")
                captured["raised"] = e
                raise PyRaise(e)
            v = fref("target_result")
            captured["returned"] = v
            return ("coro_done", v) if is_async else v

        return h

    for k, ia in (("redress.policy.policy:Policy.call", False), ("redress.policy.policy:Policy.execute", False),
                  ("redress.policy.async_policy:AsyncPolicy.call", True), ("redress.policy.async_policy:AsyncPolicy.execute", True),
                  ("redress.policy.retry_sync:Retry.call", False), ("redress.policy.retry_async:AsyncRetry.call", True)):
        it.contracts[k] = target(k, ia)
    it.contracts["redress.policy.policy:Policy.context"] = target("Policy.context", False)
    it.contracts["redress.policy.async_policy:AsyncPolicy.context"] = target("AsyncPolicy.context", False)

    CASES = []
    for cls, pkey, is_async in (("RetryPolicy", "redress.policy.policy:Policy", False), ("AsyncRetryPolicy", "redress.policy.async_policy:AsyncPolicy", True)):
        for m in ("call", "execute", "context"):
            CASES.append(("wrapper", cls, m, pkey, is_async))
    for cls, tkey, is_async in (("_RetryContext", "redress.policy.retry_sync:Retry.call", False),
                                ("_AsyncRetryContext", "redress.policy.retry_async:AsyncRetry.call", True),
                                ("_PolicyContext", "redress.policy.policy:Policy.call", False),
                                ("_AsyncPolicyContext", "redress.policy.async_policy:AsyncPolicy.call", True)):
        CASES.append(("context", cls, "call", tkey, is_async))

    def h(it):
        p = it.path
        captured.clear()
        case = CASES[p.choose(len(CASES), "case")]
        kind, cls, m, tkey, is_async = case
        if kind == "wrapper":
            wkey = f"redress.policy.wrappers:{cls}.{m}"
            names = PARAMS_CALL + (["capture_timeline"] if m == "execute" else [])
            kw = fresh_args(names)
            inner = Obj(it.tree.cls(tkey), {"retry": None, "circuit_breaker": None})
            obj = Obj(it.tree.cls(f"redress.policy.wrappers:{cls}"), {"_policy": inner})
            func = EnvFn("func")
            r = call_catch(it, BoundV(obj, FuncV(it.tree.func(wkey))), [func] if m != "context" else [], kw)
            base = wkey
            tname, targs, tkw = captured.get("call", (None, (), {}))
            p.oblige(f"{base}/C12/forwards-to-the-inner-policy", tname is not None and targs and targs[0] is inner, prop=None)
            if m != "context":
                p.oblige(f"{base}/C12/func-forwarded", len(targs) > 1 and targs[1] is func, prop=None)
            for n in target_params(it, f"{tkey}.{m}"):
                if n == "func":
                    continue
                p.oblige(f"{base}/C12/forwards/{n}", n in tkw and tkw[n] is kw.get(n), prop=None)
        else:
            ckey = f"redress.policy.context:{cls}.call"
            names = PARAMS_CALL
            fields = fresh_args(names)
            polobj = Obj(it.tree.cls(tkey.rsplit(".", 1)[0]), {})
            obj = Obj(it.tree.cls(f"redress.policy.context:{cls}"), dict(fields, policy=polobj))
            user = EnvFn("user_func")
            a1, k1 = fref("a1"), fref("k1")
            it.env_models["user_func"] = lambda it_, fn, a, k, n: ("called", tuple(a), dict(k))
            r = call_catch(it, BoundV(obj, FuncV(it.tree.func(ckey))), [user, a1], {"k": k1})
            base = ckey
            tname, targs, tkw = captured.get("call", (None, (), {}))
            p.oblige(f"{base}/C12/calls-policy.call-once", tname is not None and targs and targs[0] is polobj, prop=None)
            for n in names:
                p.oblige(f"{base}/C12/forwards/{n}", n in tkw and tkw[n] is fields[n], prop=None)
            thunk = targs[1] if len(targs) > 1 else None
            called = it.call_value(thunk, [], {}) if thunk is not None else None
            p.oblige(f"{base}/C12/thunk-invokes-func-with-the-given-arguments",
                     isinstance(called, tuple) and called[0] == "called" and called[1] == (a1,) and called[2] == {"k": k1}, prop=None)
        if r[0] == "ok":
            v = r[1]
            if isinstance(v, tuple) and v and v[0] == "coro_done":
                v = v[1]
            p.oblige(f"{base}/C12/returns-what-the-target-returns", v is captured.get("returned"), prop=None)
        else:
            p.oblige(f"{base}/C12/raises-what-the-target-raises", r[1] is captured.get("raised"), prop=None)
        p.cover(f"{base}/forwarding")

    return h


def t_forward_retry(it):
    """Retry/AsyncRetry.call/execute -> run_* -> _run_* with call-level-else-policy-level resolution (C16 precedence)"""
    stdlib.install_clock(it)
    captured = {}

    def target(is_async):
        def h(it_, fv, args, kwargs, node):
            captured["kw"] = kwargs
            captured["args"] = args
            v = fref("runner_result")
            captured["returned"] = v
            return ("coro_done", v) if is_async else v

        return h

    for k, ia in (("redress.policy.runner.sync_core:_run_sync_call", False), ("redress.policy.runner.sync_core:_run_sync_execute", False),
                  ("redress.policy.runner.async_core:_run_async_call", True), ("redress.policy.runner.async_core:_run_async_execute", True)):
        it.contracts[k] = target(ia)
    CASES = [("redress.policy.retry_sync:Retry", "call", "_run_sync_call"), ("redress.policy.retry_sync:Retry", "execute", "_run_sync_execute"),
             ("redress.policy.retry_async:AsyncRetry", "call", "_run_async_call"),
             ("redress.policy.retry_async:AsyncRetry", "execute", "_run_async_execute")]

    def h(it):
        p = it.path
        captured.clear()
        ckey, m, tgt = CASES[p.choose(len(CASES), "case")]
        names = PARAMS_CALL + (["capture_timeline"] if m == "execute" else [])
        call_level = {n: fopt("call_" + n, EnvFn("call:" + n)) for n in names}
        pol_level = {n: fopt("pol_" + n, EnvFn("pol:" + n)) for n in ("sleep", "before_sleep", "sleeper", "on_attempt_start", "on_attempt_end")}
        obj = Obj(it.tree.cls(ckey), dict(pol_level))
        func = EnvFn("func")
        r = call_catch(it, BoundV(obj, FuncV(it.tree.func(f"{ckey}.{m}"))), [func], call_level)
        base = f"{ckey}.{m}"
        kw = captured.get("kw")
        p.oblige(f"{base}/C12/reaches-{tgt}-exactly-once", kw is not None and not captured.get("args"), prop=None)
        if kw is None:
            return
        p.oblige(f"{base}/C12/forwards/policy-is-self", kw.get("policy") is obj, prop=None)
        p.oblige(f"{base}/C12/forwards/func", kw.get("func") is func, prop=None)
        for n in ("on_metric", "on_log", "operation", "abort_if") + (("capture_timeline",) if m == "execute" else ()):
            p.oblige(f"{base}/C12/forwards/{n}", kw.get(n) is call_level[n], prop=None)
        resolved = {"sleep_fn": "sleep", "before_sleep": "before_sleep", "sleeper": "sleeper", "attempt_start_hook": "on_attempt_start",
                    "attempt_end_hook": "on_attempt_end"}
        def opt_id(x):
            """(is None, identity) of a possibly-unresolved optional callable"""
            if x is None:
                return z3.BoolVal(True), z3.IntVal(-1)
            if isinstance(x, SOpt):
                n2, i2 = opt_id(x.val)
                return z3.Or(x.none, n2), i2
            return z3.BoolVal(False), x.ident

        for tparam, src in resolved.items():
            got = kw.get(tparam, "<unbound>")
            cl, pl = call_level[src], pol_level[src]
            # per-call value when given, else the policy-level one - stated semantically, whether or not this path has
            # already decided which of the two it is (an optional passed through undecided is still an optional)
            if isinstance(got, str):
                ok = False
            else:
                (gn, gi), (cn, ci_), (pn, pi) = opt_id(got), opt_id(cl), opt_id(pl)
                en, ei = z3.And(cn, pn), z3.If(cn, pi, ci_)
                ok = z3.And(gn == en, z3.Implies(z3.Not(en), gi == ei))
            p.oblige(f"{base}/C16/per-call-{src}-overrides-policy-level", ok, prop="C16")
            p.oblige(f"{base}/C12/forwards/{tparam}", ok, prop=None)
        expected = set(target_params(it, {"_run_sync_call": "redress.policy.runner.sync_core:_run_sync_call",
                                          "_run_sync_execute": "redress.policy.runner.sync_core:_run_sync_execute",
                                          "_run_async_call": "redress.policy.runner.async_core:_run_async_call",
                                          "_run_async_execute": "redress.policy.runner.async_core:_run_async_execute"}[tgt]))
        p.oblige(f"{base}/C12/every-runner-parameter-is-bound", set(kw) == expected, prop=None, detail=sorted(expected ^ set(kw)))
        v = r[1] if r[0] == "ok" else None
        if isinstance(v, tuple) and v and v[0] == "coro_done":
            v = v[1]
        p.oblige(f"{base}/C12/returns-the-runner-result", v is captured.get("returned"), prop=None)
        p.cover(f"{base}/forwarding")

    return h


def t_forward_policy_to_retry(it):
    """Policy.call/execute -> retry.call/execute: every call-level argument is passed through unchanged"""
    pol.install(it)

    def h(it):
        p = it.path
        CASES = [(fl, kd) for fl in ("sync", "async") for kd in ("call", "execute")]
        fl, kd = CASES[p.choose(len(CASES), "case")]
        key = pol.ENTRY[(fl, kd)]
        w = pol.PW(it, fl, True, False)
        kwargs = dict(w.kwargs)
        if kd == "execute":
            kwargs["capture_timeline"] = fopt("capture_timeline", fbool("capture_timeline"))
        r = call_catch(it, BoundV(w.policy, FuncV(it.tree.func(key))), [w.func], kwargs)
        args, kw = getattr(w, "retry_args", ((), {}))
        p.oblige(f"{key}/C12/delegates-to-the-retry-component-once", w.retry_calls == 1, prop=None)
        p.oblige(f"{key}/C12/forwards/func", len(args) > 1 and args[1] is w.func, prop=None)
        for n, v in kwargs.items():
            p.oblige(f"{key}/C12/forwards/{n}", kw.get(n) is v, prop=None)
        fin = w.final
        if r[0] == "ok":
            v = r[1]
            if isinstance(v, tuple) and v and v[0] == "coro_done":
                v = v[1]
            p.oblige(f"{key}/C12/no-breaker=>same-delivery-as-the-retry-component", fin is not None and v is fin[1], prop=None)
        else:
            p.oblige(f"{key}/C12/no-breaker=>same-exception-as-the-retry-component", fin is not None and r[1] is fin[1], prop=None)
        p.cover(f"{key}/forwarding")

    return h


def t_forward_constructors(it):
    """RetryPolicy/AsyncRetryPolicy.__init__ and from_config pass every configuration parameter by name (AST audit over the real source:
    each keyword of the inner constructor call is `name=name` / `name=config.<mapped>` and covers the whole signature)."""

    def h(it):
        p = it.path
        tree = it.tree
        base_params = target_params(it, "redress.policy.base:_BaseRetryPolicy.__init__")
        for mod, cls, inner in (("redress.policy.wrappers", "RetryPolicy", "Retry"), ("redress.policy.wrappers", "AsyncRetryPolicy", "AsyncRetry")):
            fi = tree.func(f"{mod}:{cls}.__init__")
            calls = [n for n in ast.walk(fi.node) if isinstance(n, ast.Call) and isinstance(n.func, ast.Name) and n.func.id == inner]
            ok = len(calls) == 1
            kws = {k.arg: k.value for k in calls[0].keywords} if ok else {}
            p.oblige(f"{mod}:{cls}.__init__/C12/constructs-{inner}-once", ok, prop=P)
            own = target_params(it, f"{mod}:{cls}.__init__")
            for n in own:
                v = kws.get(n)
                p.oblige(f"{mod}:{cls}.__init__/C12/forwards/{n}", isinstance(v, ast.Name) and v.id == n, prop=P)
            p.oblige(f"{mod}:{cls}.__init__/C12/covers-every-retry-parameter", set(base_params) <= set(own) | {"on_attempt_start", "on_attempt_end"},
                     prop=P, detail=sorted(set(base_params) - set(own)))
        # Retry.__init__ / AsyncRetry.__init__ -> _BaseRetryPolicy.__init__
        for key in ("redress.policy.retry_sync:Retry.__init__", "redress.policy.retry_async:AsyncRetry.__init__"):
            fi = tree.func(key)
            calls = [n for n in ast.walk(fi.node) if isinstance(n, ast.Call) and isinstance(n.func, ast.Attribute) and n.func.attr == "__init__"]
            ok = len(calls) == 1
            kws = {k.arg: k.value for k in calls[0].keywords} if ok else {}
            for n in base_params:
                v = kws.get(n)
                p.oblige(f"{key}/C12/forwards/{n}", isinstance(v, ast.Name) and v.id == n, prop=P)
        # from_config mappings
        cfg_map = {"strategy": "default_strategy", "strategies": "class_strategies"}
        for key in ("redress.policy.retry_sync:Retry.from_config", "redress.policy.retry_async:AsyncRetry.from_config",
                    "redress.policy.wrappers:RetryPolicy.from_config", "redress.policy.wrappers:AsyncRetryPolicy.from_config"):
            fi = tree.func(key)
            calls = [n for n in ast.walk(fi.node) if isinstance(n, ast.Call) and isinstance(n.func, ast.Name) and n.func.id == "cls"]
            ok = len(calls) == 1
            kws = {k.arg: k.value for k in calls[0].keywords} if ok else {}
            for n in base_params:
                v = kws.get(n)
                while isinstance(v, ast.Call) and isinstance(v.func, ast.Name) and v.func.id == "cast":
                    v = v.args[1]
                if n == "classifier":
                    good = isinstance(v, ast.Name) and v.id == "classifier"
                else:
                    good = isinstance(v, ast.Attribute) and isinstance(v.value, ast.Name) and v.value.id == "config" and v.attr == cfg_map.get(n, n)
                p.oblige(f"{key}/C12/forwards/{n}", good, prop=P)
        # decorator: policy construction and the two wrappers
        fi = tree.func("redress.policy.decorator:retry.<locals>.decorator")
        for inner in ("RetryPolicy", "AsyncRetryPolicy"):
            calls = [n for n in ast.walk(fi.node) if isinstance(n, ast.Call) and isinstance(n.func, ast.Name) and n.func.id == inner]
            ok = len(calls) == 1
            kws = {k.arg: k.value for k in calls[0].keywords} if ok else {}
            for n in base_params:
                v = kws.get(n)
                while isinstance(v, ast.Call) and isinstance(v.func, ast.Name) and v.func.id == "cast":
                    v = v.args[1]
                want = "effective_strategy" if n == "strategy" else n
                p.oblige(f"redress.policy.decorator:retry/C12/{inner}/forwards/{n}", isinstance(v, ast.Name) and v.id == want, prop=P)
        for wname in ("wrapper", "async_wrapper"):
            wf = tree.func(f"redress.policy.decorator:retry.<locals>.decorator.<locals>.{wname}")
            calls = [n for n in ast.walk(wf.node) if isinstance(n, ast.Call) and isinstance(n.func, ast.Attribute) and n.func.attr == "call"]
            ok = len(calls) == 1
            kws = {k.arg: k.value for k in calls[0].keywords} if ok else {}
            for n in ("on_metric", "on_log", "abort_if", "on_attempt_start", "on_attempt_end"):
                v = kws.get(n)
                p.oblige(f"redress.policy.decorator:retry/C12/{wname}/forwards/{n}", isinstance(v, ast.Name) and v.id == n, prop=P)
            v = kws.get("operation")
            p.oblige(f"redress.policy.decorator:retry/C12/{wname}/forwards/operation", isinstance(v, ast.Name) and v.id == "op_name", prop=P)
            # by design the decorator has no per-call sleep/before_sleep/sleeper/capture_timeline: they are fixed at policy level
            p.oblige(f"redress.policy.decorator:retry/C12/{wname}/no-unexpected-keywords",
                     set(kws) <= {"on_metric", "on_log", "operation", "abort_if", "on_attempt_start", "on_attempt_end"}, prop=P)
        p.cover("C12/constructors")

    return h


CONFIG_PARAMS = ["classifier", "result_classifier", "strategy", "strategies", "sleep", "before_sleep", "sleeper", "budget", "attempt_timeout_s",
                 "deadline_s", "max_attempts", "max_unknown_attempts", "per_class_max_attempts"]
CFG_FIELD = {"strategy": "default_strategy", "strategies": "class_strategies"}


def t_forward_construction(it):
    """Symbolic execution of the real constructors / from_config / @retry: every configuration value reaches the next layer unchanged
    (object identity), whatever the local names are (replaces nothing in the AST audit; it is the semantic version of it)."""
    stdlib.install_clock(it)
    cap = {}
    CONFIG_PARAMS = target_params(it, "redress.policy.base:_BaseRetryPolicy.__init__")

    def rec(name, ret=None):
        def h(it_, fv, args, kwargs, node):
            cap.setdefault(name, []).append((list(args), dict(kwargs)))
            return ret(it_, args, kwargs) if ret else None

        return h

    WR = "redress.policy.wrappers:"
    INNER = {"RetryPolicy": ("redress.policy.retry_sync:Retry", "redress.policy.policy:Policy"),
             "AsyncRetryPolicy": ("redress.policy.retry_async:AsyncRetry", "redress.policy.async_policy:AsyncPolicy")}
    CASES = [("wrapper-init", c) for c in INNER] + [("retry-init", c) for c in ("Retry", "AsyncRetry")] + \
            [("from_config", k) for k in ("redress.policy.retry_sync:Retry", "redress.policy.retry_async:AsyncRetry",
                                          WR + "RetryPolicy", WR + "AsyncRetryPolicy")] + \
            [("decorator", m) for m in ("bare-sync", "bare-async", "args-sync", "args-async")]

    base_contracts = dict(it.contracts)
    base_ext = dict(it.ext_models)

    def h(it):
        p = it.path
        cap.clear()
        it.contracts = dict(base_contracts)
        it.ext_models = dict(base_ext)
        kind, what = CASES[p.choose(len(CASES), "case")]
        kw = {n: EnvFn("arg:" + n) for n in CONFIG_PARAMS}
        # numeric configuration is symbolic, so arithmetic on the way through (max_attempts + 1) is caught and not "outside the subset"
        kw.update(max_attempts=fint("cfg_max_attempts"), deadline_s=freal("cfg_deadline_s"),
                  max_unknown_attempts=fint("cfg_max_unknown_attempts"), attempt_timeout_s=freal("cfg_attempt_timeout_s"))

        def same(x, y):
            if x is y:
                return True
            if isinstance(x, Sym) and isinstance(y, (Sym, int, float)) and not isinstance(y, bool):
                return eq_formula(x.t, y.t if isinstance(y, Sym) else y)
            if isinstance(y, Sym) and isinstance(x, (int, float)) and not isinstance(x, bool):
                return eq_formula(y.t, x)
            return False
        if kind == "wrapper-init":
            rkey, pkey = INNER[what]
            it.contracts[rkey + ".__init__"] = rec("retry")
            it.contracts[pkey + ".__init__"] = rec("policy")
            obj = it.construct(it.tree.cls(WR + what), [], kw)
            base = f"{WR}{what}.__init__"
            p.oblige(f"{base}/C12/constructs-one-retry-and-one-policy", len(cap.get("retry", [])) == 1 and len(cap.get("policy", [])) == 1, prop=None)
            ra, rk = cap["retry"][0] if cap.get("retry") else ([None], {})
            for n in CONFIG_PARAMS:
                p.oblige(f"{base}/C12/forwards/{n}", same(rk.get(n), kw[n]), prop=None)
            p.oblige(f"{base}/C12/no-extra-retry-config", set(rk) <= set(CONFIG_PARAMS), prop=None, detail=sorted(set(rk) - set(CONFIG_PARAMS)))
            pa, pk = cap["policy"][0] if cap.get("policy") else ([None], {})
            p.oblige(f"{base}/C12/policy-wraps-that-retry", pk.get("retry") is ra[0] and pk.get("circuit_breaker") is None, prop=None)
            p.oblige(f"{base}/C12/_policy-is-the-policy", obj.fields.get("_policy") is pa[0], prop=None)
        elif kind == "retry-init":
            mod = "redress.policy.retry_sync:" if what == "Retry" else "redress.policy.retry_async:"
            it.contracts["redress.policy.base:_BaseRetryPolicy.__init__"] = rec("base")
            kw2 = dict(kw, on_attempt_start=EnvFn("arg:oas"), on_attempt_end=EnvFn("arg:oae"))
            obj = it.construct(it.tree.cls(mod + what), [], kw2)
            base = f"{mod}{what}.__init__"
            p.oblige(f"{base}/C12/base-init-once", len(cap.get("base", [])) == 1, prop=None)
            ba, bk = cap["base"][0] if cap.get("base") else ([None], {})
            for n in CONFIG_PARAMS:
                p.oblige(f"{base}/C12/forwards/{n}", same(bk.get(n), kw[n]), prop=None)
            p.oblige(f"{base}/C12/attempt-hooks-stored", obj.fields.get("on_attempt_start") is kw2["on_attempt_start"]
                     and obj.fields.get("on_attempt_end") is kw2["on_attempt_end"], prop=None)
        elif kind == "from_config":
            ci = it.tree.cls(what)
            it.contracts[what + ".__init__"] = rec("init")
            cfg_ci = it.tree.cls("redress.config:RetryConfig")
            cfg = Obj(cfg_ci, {CFG_FIELD.get(n, n): kw[n] for n in CONFIG_PARAMS if n != "classifier"}, frozen=True)
            fi = it.tree.find_method(ci, "from_config")
            r = call_catch(it, BoundV(ClassV(ci), FuncV(fi)), [cfg], {"classifier": kw["classifier"]})
            base = what + ".from_config"
            p.oblige(f"{base}/C12/constructs-once", r[0] == "ok" and len(cap.get("init", [])) == 1, prop=None)
            ia, ik = cap["init"][0] if cap.get("init") else ([None], {})
            for n in CONFIG_PARAMS:
                p.oblige(f"{base}/C12/forwards/{n}", same(ik.get(n), kw[n]), prop=None)
            p.oblige(f"{base}/C12/no-extra-config", set(ik) <= set(CONFIG_PARAMS), prop=None, detail=sorted(set(ik) - set(CONFIG_PARAMS)))
            p.oblige(f"{base}/C12/returns-the-constructed-object", r[0] == "ok" and r[1] is ia[0], prop=None)
        else:
            is_async = what.endswith("async")
            bare = what.startswith("bare")
            hooks = {n: EnvFn("arg:" + n) for n in ("on_metric", "on_log", "abort_if", "on_attempt_start", "on_attempt_end")}
            op_given = p.choose(2, "operation-given") == 1
            operation = fstr("operation") if op_given else None
            if op_given:
                p.assume(z3.Length(operation.t) > 0)
            strat_mode = p.choose(3, "strategy-mode")  # 0: neither, 1: strategy, 2: strategies
            kwd = dict(kw)
            if strat_mode == 0:
                kwd["strategy"] = None
                kwd["strategies"] = None
            elif strat_mode == 1:
                kwd["strategies"] = None
            else:
                kwd["strategy"] = None
            default_strat = EnvFn("default-strategy")

            def c_dj(it_, fv, args, kwargs, node):
                cap.setdefault("dj", []).append((list(args), dict(kwargs)))
                return default_strat

            it.contracts["redress.strategies:decorrelated_jitter"] = c_dj
            func = EnvFn("user_func")
            fname = fstr("func_name")
            it.env_models["user_func"] = lambda it_, fn, a, k, n: ("called", tuple(a), dict(k))
            it.ext_models["asyncio.iscoroutinefunction"] = lambda it_, a, k, n: (a[0] is func and is_async)
            func.attrs["__name__"] = fname
            result_obj = fref("target_result")
            raised = {}

            def c_call(it_, fv, args, kwargs, node):
                cap.setdefault("call", []).append((list(args), dict(kwargs)))
                if it_.path.choose(2, "target") == 1:
                    raised["e"] = it_.fresh_exc("target", origin="target")
                    raise PyRaise(raised["e"])
                return ("coro_done", result_obj) if is_async else result_obj

            for w in INNER:
                it.contracts[WR + w + ".__init__"] = rec("init:" + w)
                it.contracts[WR + w + ".call"] = c_call
            fi = it.tree.func("redress.policy.decorator:retry")
            allkw = dict(kwd, operation=operation, **hooks)
            if bare:
                r = call_catch(it, FuncV(fi), [func], allkw)
            else:
                r = call_catch(it, FuncV(fi), [], allkw)
                if r[0] == "ok":
                    r = call_catch(it, r[1], [func], {})
            base = f"redress.policy.decorator:retry[{what}]"
            p.oblige(f"{base}/C12/decorating-does-not-raise", r[0] == "ok", prop=None)
            if r[0] != "ok":
                return
            wrapper = r[1]
            want = "AsyncRetryPolicy" if is_async else "RetryPolicy"
            other = "RetryPolicy" if is_async else "AsyncRetryPolicy"
            p.oblige(f"{base}/C12/one-policy-of-the-matching-flavour", len(cap.get("init:" + want, [])) == 1 and not cap.get("init:" + other), prop=None)
            ia, ik = cap["init:" + want][0] if cap.get("init:" + want) else ([None], {})
            for n in CONFIG_PARAMS:
                if n == "strategy" and strat_mode == 0:
                    p.oblige(f"{base}/C12/default-strategy-injected", ik.get(n) is default_strat and len(cap.get("dj", [])) == 1
                             and cap["dj"][0] == ([], {"max_s": 5.0}), prop=None)
                else:
                    p.oblige(f"{base}/C12/forwards/{n}", same(ik.get(n), kwd[n]), prop=None)
            p.oblige(f"{base}/C12/no-extra-config", set(ik) <= set(CONFIG_PARAMS), prop=None, detail=sorted(set(ik) - set(CONFIG_PARAMS)))
            p.oblige(f"{base}/C12/no-call-at-decoration-time", not cap.get("call"), prop=None)
            a1, k1 = fref("a1"), fref("k1")
            r2 = call_catch(it, wrapper, [a1], {"k": k1})
            p.oblige(f"{base}/C12/one-policy.call-per-invocation", len(cap.get("call", [])) == 1, prop=None)
            ca, ck = cap["call"][0] if cap.get("call") else ([None, None], {})
            p.oblige(f"{base}/C12/calls-the-policy-built-at-decoration", ca[0] is ia[0], prop=None)
            for n, v in hooks.items():
                p.oblige(f"{base}/C12/forwards/{n}", ck.get(n) is v, prop=None)
            opv = ck.get("operation")
            if op_given:
                p.oblige(f"{base}/C12/operation-is-the-given-name", opv is operation, prop=None)
            else:
                p.oblige(f"{base}/C12/operation-defaults-to-the-function-name", opv is fname, prop=None)
            p.oblige(f"{base}/C12/no-unexpected-call-keywords", set(ck) <= set(hooks) | {"operation"}, prop=None, detail=sorted(ck))
            thunk = ca[1] if len(ca) > 1 else None
            called = it.call_value(thunk, [], {}) if thunk is not None else None
            p.oblige(f"{base}/C12/thunk-invokes-func-with-the-given-arguments",
                     isinstance(called, tuple) and called[0] == "called" and called[1] == (a1,) and called[2] == {"k": k1}, prop=None)
            if r2[0] == "ok":
                v = r2[1]
                if isinstance(v, tuple) and v and v[0] == "coro_done":
                    v = v[1]
                p.oblige(f"{base}/C12/returns-what-policy.call-returns", "e" not in raised and v is result_obj, prop=None)
            else:
                p.oblige(f"{base}/C12/raises-what-policy.call-raises", r2[1] is raised.get("e"), prop=None)
        p.cover(f"C12/construction/{kind}/{what.rsplit(':', 1)[-1]}")

    return h


def t_forward_attributes(it):
    """RetryPolicy / AsyncRetryPolicy expose the inner Retry's configuration as their own attributes: reading an attribute the wrapper does
    not have yields the retry component's value, and assigning an attribute the retry component has - whatever its current value,
    None included - reconfigures the retry component (the runner only ever consults that one), never a shadow copy on the wrapper."""
    stdlib.install_clock(it)
    WR = "redress.policy.wrappers:"
    INNER = {"RetryPolicy": ("redress.policy.retry_sync:Retry", "redress.policy.policy:Policy"),
             "AsyncRetryPolicy": ("redress.policy.retry_async:AsyncRetry", "redress.policy.async_policy:AsyncPolicy")}
    RETRY_ATTRS = ["classifier", "result_classifier", "sleep", "before_sleep", "sleeper", "budget", "attempt_timeout_s", "deadline",
                   "max_attempts", "max_unknown_attempts", "per_class_max_attempts", "on_attempt_start", "on_attempt_end"]
    CASES = [(w, a) for w in INNER for a in RETRY_ATTRS + ["<unrelated>", "policy", "retry"]]

    def h(it):
        p = it.path
        wname, attr = CASES[p.choose(len(CASES), "case")]
        rkey, pkey = INNER[wname]
        # every attribute of the retry component currently holds either None or some value
        was_none = p.choose(2, "assigned-attribute-is-currently-None") == 1
        rfields = {a: (None if (a == attr and was_none) or (a != attr and i % 2) else EnvFn("old:" + a)) for i, a in enumerate(RETRY_ATTRS)}
        retry = Obj(it.tree.cls(rkey), rfields)
        policy = Obj(it.tree.cls(pkey), {"retry": retry, "circuit_breaker": None})
        w = Obj(it.tree.cls(WR + wname), {"_policy": policy})
        before = dict(retry.fields)
        new = EnvFn("new-value")
        name = "my_custom_attribute" if attr == "<unrelated>" else attr
        base = f"{WR}{wname}.__setattr__"
        try:
            it.setattr_value(w, name, new)
            raised = None
        except PyRaise as e:
            raised = e.exc
        if attr in ("policy", "retry"):
            p.oblige(f"{base}/C12/{attr}-is-read-only", raised is not None and T(it.lattice.isinstance_cond(raised.cls_t, AttributeError)) is not False
                     and retry.fields == before, prop=None)
        elif attr == "<unrelated>":
            p.oblige(f"{base}/C12/unrelated-attribute-stays-on-the-wrapper", raised is None and w.fields.get(name) is new and retry.fields == before,
                     prop=None)
        else:
            p.oblige(f"{base}/C12/assignment-reconfigures-the-retry-component/{attr}", raised is None and retry.fields.get(attr) is new, prop=None,
                     detail={"was_None": before[attr] is None})
            p.oblige(f"{base}/C12/no-shadow-copy-on-the-wrapper/{attr}", attr not in w.fields, prop=None, detail={"was_None": before[attr] is None})
            p.oblige(f"{base}/C12/other-attributes-untouched", all(retry.fields[a] is before[a] for a in RETRY_ATTRS if a != attr), prop=None)
            got = it.getattr_value(w, attr)
            p.oblige(f"{WR}{wname}.__getattr__/C12/reads-the-retry-component/{attr}", got is new, prop=None)
        p.cover(f"{base}/{attr}")

    return h


def t_forward_context_factories(it):
    """<X>.context(**hooks) builds the context object with every hook in the field of its own name (the dataclasses are constructed
    positionally in the library) and policy = self; __enter__ hands out the bound call, __exit__ never swallows; Policy/AsyncPolicy
    constructors store their two components."""
    stdlib.install_clock(it)
    FACT = [("redress.policy.retry_sync:Retry", "_RetryContext"), ("redress.policy.retry_async:AsyncRetry", "_AsyncRetryContext"),
            ("redress.policy.policy:Policy", "_PolicyContext"), ("redress.policy.async_policy:AsyncPolicy", "_AsyncPolicyContext")]

    def h(it):
        p = it.path
        ckey, ctxname = FACT[p.choose(len(FACT), "case")]
        ci = it.tree.cls(ckey)
        if "Policy" in ckey and p.choose(2, "constructor") == 1:
            r_, b_ = EnvFn("arg:retry"), EnvFn("arg:breaker")
            o = it.construct(ci, [], {"retry": r_, "circuit_breaker": b_})
            p.oblige(f"{ckey}.__init__/C12/stores-its-components", o.fields.get("retry") is r_ and o.fields.get("circuit_breaker") is b_
                     and set(o.fields) == {"retry", "circuit_breaker"}, prop=None, detail=sorted(o.fields))
            p.cover(f"{ckey}.__init__")
            return
        obj = Obj(ci, {"retry": None, "circuit_breaker": None})
        kw = fresh_args(PARAMS_CALL)
        r = call_catch(it, BoundV(obj, FuncV(it.tree.find_method(ci, "context"))), [], kw)
        base = f"{ckey}.context"
        ok = r[0] == "ok" and isinstance(r[1], Obj) and r[1].cls is not None and r[1].cls.name == ctxname
        p.oblige(f"{base}/C12/returns-its-context-manager", ok, prop=None)
        if not ok:
            return
        c = r[1]
        p.oblige(f"{base}/C12/context-is-bound-to-self", c.fields.get("policy") is obj, prop=None)
        for n in PARAMS_CALL:
            p.oblige(f"{base}/C12/binds/{n}", c.fields.get(n) is kw[n], prop=None)
        enter = "__aenter__" if "Async" in ctxname else "__enter__"
        ent = it.call_value(it.getattr_value(c, enter), [], {})
        if isinstance(ent, tuple) and ent and ent[0] == "coro_done":
            ent = ent[1]
        p.oblige(f"{base}/C12/__enter__-hands-out-the-bound-call",
                 isinstance(ent, BoundV) and ent.self_obj is c and ent.func.info.key.endswith(".call"), prop=None)
        ex = it.call_value(it.getattr_value(c, "__aexit__" if "Async" in ctxname else "__exit__"), [None, None, None], {})
        if isinstance(ex, tuple) and ex and ex[0] == "coro_done":
            ex = ex[1]
        p.oblige(f"{base}/C12/__exit__-never-swallows", ex is False, prop=None)
        p.cover(f"{base}")

    return h


TASKS = []


def _pair_task(name, setup, weight=10, split=None):
    t = Task(name, setup, [P], [])
    t.pair = True
    t.weight = weight
    if split:
        t.split_depth, t.split_chunks = split
    return t


TASKS += [
    _pair_task("twin.runners.call", lambda it: t_twin_runners(it, "call"), 20, (9, 24)),
    _pair_task("twin.runners.execute", lambda it: t_twin_runners(it, "execute"), 20, (9, 24)),
    _pair_task("twin.sleep_action", t_twin_sleep_action, 2),
    _pair_task("call~execute.sync", lambda it: t_call_vs_execute(it, "sync"), 30),
    _pair_task("call~execute.async", lambda it: t_call_vs_execute(it, "async"), 30),
] + [
    _pair_task(f"twin.policy.{kd}[{'retry' if wr else 'no-retry'}]", (lambda kd, wr: (lambda it: t_twin_policy(it, kd, wr)))(kd, wr), 3)
    for kd in ("call", "execute") for wr in (True, False)
] + [
    Task("forward.sugar", t_forward_sugar, [P, "C16"], []),
    Task("forward.retry->runner", t_forward_retry, [P, "C16"], ["redress.policy.retry_sync:Retry.call", "redress.policy.retry_sync:Retry.execute",
                                                                "redress.policy.retry_async:AsyncRetry.call", "redress.policy.retry_async:AsyncRetry.execute",
                                                                "redress.policy.retry_helpers:_resolve_sleep", "redress.policy.retry_helpers:_resolve_before_sleep",
                                                                "redress.policy.retry_helpers:_resolve_sleeper", "redress.policy.retry_helpers:_resolve_attempt_hooks"]),
    Task("forward.policy->retry", t_forward_policy_to_retry, [P, "C16"], []),
    Task("forward.context-factories", t_forward_context_factories, [P, "C16"], [
        "redress.policy.retry_sync:Retry.context", "redress.policy.retry_async:AsyncRetry.context", "redress.policy.policy:Policy.context",
        "redress.policy.async_policy:AsyncPolicy.context", "redress.policy.policy:Policy.__init__", "redress.policy.async_policy:AsyncPolicy.__init__"]),
    Task("forward.attributes", t_forward_attributes, [P, "C16"], [
        "redress.policy.wrappers:RetryPolicy.__setattr__", "redress.policy.wrappers:AsyncRetryPolicy.__setattr__",
        "redress.policy.wrappers:RetryPolicy.__getattr__", "redress.policy.wrappers:AsyncRetryPolicy.__getattr__"]),
    Task("forward.construction", t_forward_construction, [P, "C16"], [
        "redress.policy.wrappers:RetryPolicy.__init__", "redress.policy.wrappers:AsyncRetryPolicy.__init__",
        "redress.policy.wrappers:RetryPolicy.from_config", "redress.policy.wrappers:AsyncRetryPolicy.from_config",
        "redress.policy.retry_sync:Retry.__init__", "redress.policy.retry_async:AsyncRetry.__init__",
        "redress.policy.retry_sync:Retry.from_config", "redress.policy.retry_async:AsyncRetry.from_config",
        "redress.policy.decorator:retry", "redress.policy.decorator:retry.<locals>.decorator",
        "redress.policy.decorator:retry.<locals>.decorator.<locals>.wrapper",
        "redress.policy.decorator:retry.<locals>.decorator.<locals>.async_wrapper"]),
]
for _t in TASKS:
    if _t.name.startswith("call~execute"):
        _t.thorough_only = True  # full path product of two runners: ~15 min serial each
        _t.time_limit = 3000
    _t.assumptions = ["C12 twins: cancellation injected at an await and awaitable-returning callbacks are async-only behaviours and are switched off in the "
                      "comparison ('call a maybe-awaitable and await it' is one interaction); agreement when observability hooks raise is C15's subject"]


# ---------------------------------------------------------------------------------------------
#  3b. Policy.call == Policy.execute up to delivery (breaker interactions), scenario-coupled retry component
# ---------------------------------------------------------------------------------------------
SCENARIOS = ["value", "library-abort", "exhausted-result-failure", "operation-exception-final-failure", "propagating-exception",
             "callback-error"]


def policy_ce_harness(flavour, kind):
    """Policy.<kind> with a retry component whose behaviour is a function of a shared scenario: the retry component's call() and
    execute() are related by the delivery relation proved on the runners (C04/C11/C12 call~execute)."""
    key = pol.ENTRY[(flavour, kind)]
    is_async = flavour == "async"
    rk = pol.RETRY_KEYS[flavour]

    def h(it):
        p = it.path
        w = pol.PW(it, flavour, True, True)
        w.twin = True
        sc = SCENARIOS[p.choose(len(SCENARIOS), "scenario")]
        ec, sr = w.ec, w.sr
        v = fref("value")
        L = fopt("final_class", it.fresh_enum(ec, "final_class"))
        K = it.fresh_enum(ec, "classified")
        reason = it.fresh_enum(sr, "stop_reason")
        p.assume(reason.t != it.enum_const(sr, "ABORTED"))
        e = pol.any_exc(it, "scenario")
        lat = it.lattice
        ARE = it.tree.cls("redress.errors:AbortRetryError")
        REE = it.tree.cls("redress.errors:RetryExhaustedError")
        is_exc = lat.isinstance_cond(e.cls_t, Exception)
        if sc == "operation-exception-final-failure":
            e.tag = "func"
            p.assume(z3.And(is_exc, z3.Not(lat.isinstance_cond(e.cls_t, ARE)), z3.Not(lat.isinstance_cond(e.cls_t, REE))))
        elif sc == "propagating-exception":
            e.tag = "func"
            p.assume(z3.Or(z3.Not(is_exc), lat.isinstance_cond(e.cls_t, REE)))
        elif sc == "callback-error":
            e.tag = "callback"
            p.assume(z3.And(is_exc, z3.Not(lat.isinstance_cond(e.cls_t, ARE)), z3.Not(lat.isinstance_cond(e.cls_t, REE))))
        w.final = (sc, None)

        def retry_call(it_, fv, args, kwargs, node):
            w.retry_calls += 1
            if sc == "value":
                return ("coro_done", v) if is_async else v
            if sc == "library-abort":
                x = Obj(ARE, {"args": (), "__traceback__": None, "__cause__": None}, cls_t=lat.const["AbortRetryError"], ident=z3.Int("abort_exc"))
                x.tag = "library-abort"
                raise PyRaise(x)
            if sc == "exhausted-result-failure":
                x = Obj(REE, {"stop_reason": reason, "attempts": fint("attempts"), "last_class": L, "last_exception": None, "last_result": fref("r"),
                              "next_sleep_s": None, "args": (), "__traceback__": None, "__cause__": None}, cls_t=lat.const["RetryExhaustedError"],
                        frozen=True, ident=z3.Int("ree_exc"))
                x.tag = "library-exhausted"
                raise PyRaise(x)
            raise PyRaise(e)

        def retry_execute(it_, fv, args, kwargs, node):
            w.retry_calls += 1
            if sc in ("propagating-exception", "callback-error"):
                raise PyRaise(e)
            ro = it_.tree.cls("redress.policy.types:RetryOutcome")
            f = {"ok": sc == "value", "value": v if sc == "value" else None, "stop_reason": None, "attempts": fint("attempts"), "last_class": None,
                 "last_exception": None, "last_result": None, "cause": None, "elapsed_s": freal("elapsed"), "next_sleep_s": None, "timeline": None}
            if sc == "library-abort":
                f["stop_reason"] = it_.enum_member(sr, "ABORTED")
            elif sc == "exhausted-result-failure":
                f.update(stop_reason=reason, last_class=L, last_result=fref("r"), cause="result")
            elif sc == "operation-exception-final-failure":
                f.update(stop_reason=reason, last_class=K, last_exception=e, cause="exception")
            o = Obj(ro, f, frozen=True, ident=z3.Int("outcome_id"))
            return ("coro_done", o) if is_async else o

        it.contracts[rk[1]] = retry_call
        it.contracts[rk[2]] = retry_execute
        # the classifier is a function of the exception object: asked again about e it answers what it answered the runner
        it.env_models["classifier"] = lambda it_, fn, a, k, n: K
        kwargs = dict(w.kwargs)
        if kind == "execute":
            kwargs["capture_timeline"] = fopt("capture_timeline", fbool("capture_timeline"))
        r = call_catch(it, BoundV(w.policy, FuncV(it.tree.func(key))), [w.func], kwargs)
        it.path.trace.extend(("breaker." + k, (tr(c),)) for k, c in w.records)
        return {"scenario": sc, "admitted": w.admitted, "records": [(k, tr(c)) for k, c in w.records], "exit": r[0]}

    return h


def compare_policy_ce(base):
    def compare(it, a, b, p):
        oa, ob = a["out"], b["out"]
        if oa is None or ob is None:
            return
        sc = oa["scenario"]
        p.oblige(f"{base}/same-admission", oa["admitted"] == ob["admitted"], prop=P)
        ra, rb = oa["records"], ob["records"]
        same = len(ra) == len(rb) and all(x[0] == y[0] for x, y in zip(ra, rb))
        cls_eq = z3.And([eq_formula(x[1], y[1]) for x, y in zip(ra, rb)]) if same and ra else z3.BoolVal(True)
        p.oblige(f"{base}/same-breaker-interactions/{sc}", z3.And(z3.BoolVal(same), cls_eq) if same else False, prop=P,
                 detail={"call": str(ra)[:160], "execute": str(rb)[:160]})
        p.cover(f"{base}/{sc}")

    return compare


def t_policy_call_vs_execute(it, flavour):
    pol.install(it)
    return ("product", policy_ce_harness(flavour, "call"), policy_ce_harness(flavour, "execute"),
            compare_policy_ce(f"C12/call~execute/{'Async' if flavour == 'async' else ''}Policy"))


TASKS += [
    _pair_task("call~execute.policy.sync", lambda it: t_policy_call_vs_execute(it, "sync"), 3),
    _pair_task("call~execute.policy.async", lambda it: t_policy_call_vs_execute(it, "async"), 3),
]
for _t in TASKS[-2:]:
    _t.assumptions = ["Policy call~execute: the retry component's call() and execute() are coupled by the delivery relation proved on the runners; "
                      "the classifier is a function of the exception object"]
