"""Term-level views of a _RetryState object (used by contracts as pre/post states)."""
from __future__ import annotations

import z3

from pyvc import ops
from pyvc.harness import fint, fopt, freal, fref, fstr, fxfloat
from pyvc.ops import term, to_sfloat
from pyvc.path import Unsupported
from pyvc.values import FIN, EnumMap, EnumVal, EnvFn, Obj, Ref, SFloat, SOpt, Sym, fresh_name

from .world import CLASSES, W

SKEY = "redress.policy.state:_RetryState"

# field -> kind
FIELDS = {
    "prev_sleep": "optreal",
    "last_exc": "optexc",
    "last_result": "optref",
    "last_class": "optenum:ErrorClass",
    "last_classification": "optcls",
    "last_cause": "optstr",
    "last_stop_reason": "optenum:StopReason",
    "unknown_attempts": "int",
    "per_class_counts": "counts",
    "_last_strategy": "optstrat",
}
STABLE = ["policy", "on_metric", "on_log", "operation", "abort_if", "start_mono"]


def enum_ci(it, name):
    return it.tree.cls({"ErrorClass": "redress.errors:ErrorClass", "StopReason": "redress.errors:StopReason"}[name])


def fresh_field(it, name, kind, prefix="s"):
    nm = f"{prefix}_{name}"
    if kind == "optreal":
        return fopt(nm, freal(nm))
    if kind == "optexc":
        return fopt(nm, it.fresh_exc(nm, origin="state"))
    if kind == "optref":
        return fopt(nm, fref(nm))
    if kind.startswith("optenum:"):
        return fopt(nm, it.fresh_enum(enum_ci(it, kind.split(":")[1]), nm))
    if kind == "optcls":
        ci = it.tree.cls("redress.classify:Classification")
        ra = fopt(nm + "_ra", fxfloat(nm + "_ra"))
        o = Obj(ci, {"klass": it.fresh_enum(enum_ci(it, "ErrorClass"), nm + "_klass"), "retry_after_s": ra,
                     "details": fref(nm + "_details")}, frozen=True, ident=z3.Int(fresh_name(nm + "_id")))
        return fopt(nm, o)
    if kind == "optstr":
        return fopt(nm, fstr(nm))
    if kind == "int":
        return fint(nm)
    if kind == "counts":
        return EnumMap(enum_ci(it, "ErrorClass"), {k: fint(f"{nm}_{k}") for k in CLASSES}, defaultdict=True)
    if kind == "optstrat":
        return fopt(nm, EnvFn("strategy", ident=z3.Int(fresh_name(nm + "_id"))))
    raise Unsupported(kind)


def opt_view(it, v, payload):
    """(none: Bool, payload-term) of an optional value"""
    none, val = ops.opt_parts(v)
    none = z3.simplify(none)
    if val is None:
        return none, None
    return none, payload(val)


def payload_of(kind):
    if kind == "optreal":
        def p(v):
            sf = to_sfloat(v)
            return sf  # SFloat (k, v)
        return p
    if kind in ("optexc", "optcls", "optstrat"):
        return lambda v: v.ident
    if kind == "optref":
        return lambda v: ops.ident_of(v)
    if kind.startswith("optenum"):
        return lambda v: v.t
    if kind == "optstr":
        return lambda v: ops.sterm(v)
    raise Unsupported(kind)


class View:
    """snapshot of the mutable _RetryState fields as terms"""

    def __init__(self, it, state: Obj):
        self.f = {}
        for name, kind in FIELDS.items():
            if name not in state.fields:
                raise Unsupported(f"_RetryState no longer has the field {name!r} the sidecar contracts are written over (representation changed)")
            v = state.fields[name]
            if kind == "int":
                self.f[name] = term(v)
            elif kind == "counts":
                self.f[name] = {k: term(v.slots.get(k, 0)) for k in CLASSES}
            else:
                self.f[name] = opt_view(it, v, payload_of(kind))

    def none(self, name):
        return self.f[name][0]

    def val(self, name):
        return self.f[name][1]

    def count_of(self, it, k_term):
        ec = enum_ci(it, "ErrorClass")
        out = z3.IntVal(0)
        for k in CLASSES:
            out = z3.If(k_term == it.enum_const(ec, k), self.f["per_class_counts"][k], out)
        return z3.simplify(out)


def same_opt(a, b):
    """equality of two (none, payload) views"""
    na, va = a
    nb, vb = b
    if va is None and vb is None:
        return z3.And(na, nb) if not (z3.is_true(na) and z3.is_true(nb)) else z3.BoolVal(True)
    if va is None:
        return z3.And(na, nb)
    if vb is None:
        return z3.And(na, nb)
    if isinstance(va, SFloat):
        eq = z3.And(va.k == vb.k, va.v == vb.v)
    else:
        eq = va == vb
    return z3.Or(z3.And(na, nb), z3.And(z3.Not(na), z3.Not(nb), eq))


def same_view(a: View, b: View, fields=None):
    conj = []
    for name, kind in FIELDS.items():
        if fields is not None and name not in fields:
            continue
        if kind == "int":
            conj.append(a.f[name] == b.f[name])
        elif kind == "counts":
            conj += [a.f[name][k] == b.f[name][k] for k in CLASSES]
        else:
            conj.append(same_opt(a.f[name], b.f[name]))
    return z3.And(conj)


def install_fresh(it, state: Obj, prefix="s", only=None):
    for name, kind in FIELDS.items():
        if only is not None and name not in only:
            continue
        state.fields[name] = fresh_field(it, name, kind, prefix)


def make_state(it, w, prefix="s"):
    """a _RetryState in an arbitrary state (for verifying methods in isolation)"""
    ci = it.tree.cls(SKEY)
    st = Obj(ci, {
        "policy": w.policy, "on_metric": w.on_metric, "on_log": w.on_log, "operation": w.operation,
        "abort_if": w.abort_if, "start_mono": freal("start_mono"),
    })
    install_fresh(it, st, prefix)
    from pyvc.harness import adopt_unknown_fields
    adopt_unknown_fields(it, st, ci, {"policy": w.policy, "on_metric": None, "on_log": None, "operation": None, "abort_if": None},
                         set(st.fields))
    w.state = st
    return st


def wf_state(it, st: Obj):
    """well-formedness every reachable _RetryState satisfies (part of every loop invariant / precondition)"""
    v = View(it, st)
    conj = [v.f["unknown_attempts"] >= 0] + [v.f["per_class_counts"][k] >= 0 for k in CLASSES]
    ps_none, ps = v.f["prev_sleep"]
    if ps is not None:
        conj.append(z3.Implies(z3.Not(ps_none), z3.And(ps.k == FIN, ps.v >= 0)))
    # last_class mirrors last_classification.klass
    lc = st.fields["last_classification"]
    ncl, ocl = ops.opt_parts(lc)
    nk, kv = v.f["last_class"]
    if ocl is not None and kv is not None:
        conj.append(ncl == nk)
        conj.append(z3.Implies(z3.Not(nk), kv == ocl.fields["klass"].t))
    # exactly one of last_exc / last_result describes the last failure
    cause_none, cause = v.f["last_cause"]
    conj.append(cause_none == nk)
    if cause is not None:
        conj.append(z3.Implies(z3.Not(cause_none), z3.Or(cause == z3.StringVal("exception"), cause == z3.StringVal("result"))))
        conj.append(z3.Implies(z3.And(z3.Not(cause_none), cause == z3.StringVal("exception")),
                               z3.And(z3.Not(v.none("last_exc")), v.none("last_result"))))
        conj.append(z3.Implies(z3.And(z3.Not(cause_none), cause == z3.StringVal("result")), v.none("last_exc")))
    conj.append(z3.Implies(cause_none, z3.And(v.none("last_exc"), v.none("last_result"))))
    return z3.And(conj)


def fresh_ctx(it, attempt, classification=None, cause=None, prefix="ctx"):
    """a BackoffContext whose optional fields are arbitrary (nothing but the attempt number is known about it)"""
    ci = it.tree.cls("redress.strategies:BackoffContext")
    if classification is None:
        cci = it.tree.cls("redress.classify:Classification")
        classification = Obj(cci, {"klass": it.fresh_enum(enum_ci(it, "ErrorClass"), prefix + "_klass"),
                                   "retry_after_s": fopt(prefix + "_ra", fxfloat(prefix + "_ra")), "details": fref(prefix + "_details")},
                             frozen=True, ident=z3.Int(fresh_name(prefix + "_cls_id")))
    if cause is None:
        cause = fstr(prefix + "_cause")
        it.path.assume(z3.Or(cause.t == z3.StringVal("exception"), cause.t == z3.StringVal("result")))
    ps, rem = freal(prefix + "_prev_sleep"), freal(prefix + "_remaining")
    it.path.assume(z3.And(ps.t >= 0, rem.t >= 0))
    return Obj(ci, {"attempt": attempt, "classification": classification, "prev_sleep_s": fopt(prefix + "_prev_sleep", ps),
                    "remaining_s": fopt(prefix + "_remaining", rem), "cause": cause}, frozen=True, ident=z3.Int(fresh_name(prefix)))
