"""Contracts for redress.policy.state:_RetryState and friends.

 * emit            - call-site contract = ghost event automaton (C14) ; body verified in task state.emit (C15)
 * elapsed         - real body executed, ghost clock bookkeeping added (C02)
 * Budget.consume  - call-site contract (any answer; counts tokens) - the budget itself is C10
 * _handle_failure - relation HF (below), used at call sites by the runners and proved against the real body
"""
from __future__ import annotations

import z3

from pyvc import ops, stdlib
from pyvc.harness import T, Task, call_catch, fbool, fint, fopt, freal, fref, fstr, fxfloat
from pyvc.interp_expr import PyRaise
from pyvc.ops import rterm, sterm, term, to_sfloat
from pyvc.path import PathEnd, Unsupported
from pyvc.values import (FIN, BoundV, EnumMap, EnumVal, EnvFn, FuncV, Obj, Ref, SFloat, SOpt, Sym, TimeDelta, UNDEF,
                         fresh_name)

from . import stateview as sv
from .world import CLASSES, EPS, G, Ghost, NONRETRY, RetryWorld, W, advance_clock, env_raise, install_env, trace

SKEY = sv.SKEY
K_EMIT = SKEY + ".emit"
K_ELAPSED = SKEY + ".elapsed"
K_HF = SKEY + "._handle_failure"
K_CONSUME = "redress.budget:Budget.consume"

EVENT_OF_REASON = {
    "MAX_ATTEMPTS_PER_CLASS": "max_attempts_exceeded",
    "MAX_ATTEMPTS_GLOBAL": "max_attempts_exceeded",
    "NON_RETRYABLE_CLASS": "permanent_fail",
    "MAX_UNKNOWN_ATTEMPTS": "max_unknown_attempts_exceeded",
    "DEADLINE_EXCEEDED": "deadline_exceeded",
    "NO_STRATEGY": "no_strategy_configured",
    "BUDGET_EXHAUSTED": "budget_exhausted",
    "SCHEDULED": "scheduled",
    "ABORTED": "aborted",
}


def fk_of(it):
    return it.frames[0].func.key if it.frames and it.frames[0].func else "harness"


# ---------------------------------------------------------------------------------------------
#  emit: call-site contract
# ---------------------------------------------------------------------------------------------
def c_emit(it, fv, args, kwargs, node):
    names = ["self", "event", "attempt", "sleep_s", "klass", "exc", "stop_reason", "cause", "classification"]
    a = dict(zip(names, args))
    a.update(kwargs)
    for n in names[4:]:
        a.setdefault(n, None)
    g, p, w = G(it), it.path, W(it)
    fk = fk_of(it)
    site = f"{it.frames[-1].func.key}@emit" if it.frames else "emit"
    ev = a["event"]
    trace(it, "emit", ev, a["attempt"], a["sleep_s"], a["klass"], a["exc"], a["stop_reason"], a["cause"])
    evt = sterm(ev)
    p.oblige(f"{site}/C14/no-event-after-terminal", g["n_term"] == 0, prop="C14")
    is_retry = z3.simplify(evt == z3.StringVal("retry"))
    att = term(a["attempt"])
    sl = to_sfloat(a["sleep_s"])
    if p.branch(is_retry):
        p.oblige(f"{site}/C14/retry-event-numbered-by-attempt", att == g["n_retry"] + 1, prop="C14")
        p.oblige(f"{site}/C14/retry-event-delay-finite", sl.k == FIN, prop="C14")
        if w.attempt is not None:
            p.oblige(f"{site}/C03/no-retry-event-after-last-permitted-attempt", att < w.max_attempts.t, prop="C03")
        g.inc("n_retry")
        g["last_retry_attempt"] = att
        g["last_retry_sleep"] = sl.v
    else:
        g.inc("n_term")
        g["term_event"] = evt
        g["term_attempt"] = att
        g["term_sleep"] = sl.v
        for key, nm in (("stop_reason", "term_reason"), ("klass", "term_class")):
            none, val = ops.opt_parts(a[key])
            g[nm + "_none"] = none
            if val is not None:
                g[nm] = val.t
        none, val = ops.opt_parts(a["exc"])
        g["term_exc_none"] = none
        if val is not None:
            g["term_exc"] = val.ident
        none, val = ops.opt_parts(a["cause"])
        g["term_cause_none"] = none
        if val is not None:
            g["term_cause"] = sterm(val)
    # hooks: ordinary exceptions are confined (proved on the body); a non-Exception raised by a hook escapes
    st = a["self"]
    any_hook = z3.Or(z3.Not(T(it.is_none(st.fields["on_metric"]))), z3.Not(T(it.is_none(st.fields["on_log"]))))
    if p.branch(any_hook):
        if p.choose(2, "emit-hook-baseexception") == 1:
            env_raise(it, "hook", only_base=True)
    return None


# ---------------------------------------------------------------------------------------------
#  elapsed: run the real body, then ghost bookkeeping
# ---------------------------------------------------------------------------------------------
def c_elapsed(it, fv, args, kwargs, node):
    it.inline_override.add(K_ELAPSED)
    try:
        r = it.call_function(fv, args, kwargs, node)
    finally:
        it.inline_override.discard(K_ELAPSED)
    g = G(it)
    if isinstance(r, TimeDelta):
        g["last_elapsed"] = r.s
        g["last_elapsed_t"] = g["now"]
        g.inc("elapsed_reads")
        first = g["need_post_sleep_read"]
        g["post_sleep_elapsed"] = z3.If(first, r.s, g["post_sleep_elapsed"])
        g["post_sleep_t"] = z3.If(first, g["now"], g["post_sleep_t"])
        g["need_post_sleep_read"] = False
    return r


K_RECORD = SKEY + ".record_failure"


def c_record_failure(it, fv, args, kwargs, node):
    """real body + ghost: this failure becomes the final-attempt record"""
    it.inline_override.add(K_RECORD)
    try:
        r = it.call_function(fv, args, kwargs, node)
    finally:
        it.inline_override.discard(K_RECORD)
    g, w = G(it), W(it)
    cls = kwargs["classification"]
    K = cls.fields["klass"].t
    g["last_cls"] = K
    g["last_cls_ident"] = cls.ident
    g["last_cause"] = sterm(kwargs["cause"])
    g["last_op_was_failure"] = True
    is_exc = sterm(kwargs["cause"]) == z3.StringVal("exception")
    en, ev = sv.opt_view(it, kwargs["exc"], lambda v: v.ident)
    rn, rv = sv.opt_view(it, kwargs["result"], lambda v: ops.ident_of(v))
    g["fail_ident"] = z3.If(is_exc, ev if ev is not None else z3.IntVal(-1), rv if rv is not None else z3.IntVal(-1))
    g["last_fail_class"] = K
    g["last_fail_valid"] = True
    g["nonretry_seen"] = z3.Or(g["nonretry_seen"], w.is_nonretry(K))
    g.inc("fail_count")
    return r


def c_consume(it, fv, args, kwargs, node):
    g, w = G(it), W(it)
    fk = fk_of(it)
    r = fbool("granted")
    trace(it, "budget.consume")
    g.inc("consume_calls")
    g["tokens"] = g["tokens"] + z3.If(r.t, 1, 0)
    if w.attempt is not None:
        it.path.oblige(f"{fk}/C03/no-token-after-last-permitted-attempt", z3.Implies(r.t, term(w.attempt) < w.max_attempts.t), prop="C03")
    it.path.oblige(f"{fk}/C10/consume-cost-is-1", len(args) == 1 and not kwargs, prop="C10")
    return r


def install_state_contracts(it, hf=True):
    install_env(it)

    # frame: exception objects that came from the operation (or are remembered in the state) are never modified -
    # "raises that last attempt's own exception object with its original traceback" (C04)
    def exc_frame(it_, o, attr, mode, node):
        if mode == "write" and o.cls_t is not None and o.cls is None and o.tag != "raised-by-code":
            fn = it_.frames[-1].func.key if it_.frames and it_.frames[-1].func else "?"
            it_.path.oblige(f"{fn}/C04/frame/operation-exception-object-not-modified/{attr}", False, prop=None,
                            detail={"line": getattr(node, "lineno", None)})

    it.field_hooks.append(exc_frame)
    it.contracts[K_EMIT] = c_emit
    it.contracts[K_ELAPSED] = c_elapsed
    it.contracts[K_CONSUME] = c_consume
    it.contracts[K_RECORD] = c_record_failure
    if hf:
        it.contracts[K_HF] = c_handle_failure


# ---------------------------------------------------------------------------------------------
#  _handle_failure: relation HF(pre, post, args, result, ghost_pre, ghost_post)
# ---------------------------------------------------------------------------------------------
def sanitise(k, v, rem):
    x = z3.If(k == FIN, v, z3.RealVal(0))
    y = z3.If(x > 0, x, z3.RealVal(0))
    return z3.If(rem < y, rem, y)


GHOST_MODIFIED_BY_HF = ["strat_calls_attempt", "strat_fn", "strat_ctx_ident", "strat_arg_attempt", "strat_arg_cls_ident",
                        "strat_arg_prev_none", "strat_arg_prev", "strat_arg_remaining", "strat_arg_cause", "strat_ret_k",
                        "strat_ret_v", "tokens", "consume_calls", "n_retry", "n_term", "term_event", "term_attempt",
                        "term_sleep", "term_reason_none", "term_reason", "term_class_none", "term_class", "term_exc_none",
                        "term_exc", "term_cause_none", "term_cause", "last_retry_attempt", "last_retry_sleep",
                        "nonretry_seen", "last_fail_class", "last_fail_valid", "now", "last_elapsed", "last_elapsed_t",
                        "need_post_sleep_read", "post_sleep_elapsed", "post_sleep_t", "remaining_at_decision", "fail_count", "elapsed_reads",
                        "last_cls", "last_cls_ident", "last_cause", "last_op_was_failure", "fail_ident"]


def hf_relation(it, w, pre: sv.View, post: sv.View, a, res, gp: Ghost, gq: Ghost, start_mono):
    """list of (name, prop, formula).  `res` is None for an exceptional exit, else dict(is_retry, sleep (SFloat), ctx_ident)."""
    ec, sr = w.ec, w.sr
    K = a["K"]
    attempt = a["attempt"]
    cause = a["cause"]
    is_exc_cause = cause == z3.StringVal("exception")
    out = []

    def add(name, prop, f):
        out.append((name, prop, f))

    E = lambda name: it.enum_const(ec, name)
    R = lambda name: it.enum_const(sr, name)
    # --- record_failure + counter (first statements; hold on every exit)
    add("records/last_class", "C04", z3.And(z3.Not(post.none("last_class")), post.val("last_class") == K))
    add("records/last_classification", "C04",
        z3.And(z3.Not(post.none("last_classification")), post.val("last_classification") == a["cls_ident"]))
    add("records/last_cause", "C04", z3.And(z3.Not(post.none("last_cause")), post.val("last_cause") == cause))
    add("records/exactly-one-of-exc-result", "C04",
        z3.If(is_exc_cause,
              z3.And(sv.same_opt(post.f["last_exc"], a["exc"]), post.none("last_result")),
              z3.And(sv.same_opt(post.f["last_result"], a["result"]), post.none("last_exc"))))
    for k in CLASSES:
        add(f"counts/{k}", "C01", post.f["per_class_counts"][k] == pre.f["per_class_counts"][k] + z3.If(K == E(k), 1, 0))
    ldef, lval = w.limit_of(K)
    cnt = post.count_of(it, K)
    exceeded = z3.And(ldef, cnt > lval)
    nonretry = w.is_nonretry(K)
    unk = w.is_unknown(K)
    unk_inc = z3.And(unk, z3.Not(exceeded))
    add("unknown-counter", "C01", post.f["unknown_attempts"] == pre.f["unknown_attempts"] + z3.If(unk_inc, 1, 0))
    cap_def = z3.Not(w.max_unknown.none)
    cap = w.max_unknown.val.t
    unk_exceeded = z3.And(unk_inc, cap_def, post.f["unknown_attempts"] > cap)
    # --- ghost frame
    add("ghost/nonretry_seen", "C01", gq["nonretry_seen"] == z3.Or(gp["nonretry_seen"], nonretry))
    add("ghost/last-failure-class", "C01", z3.And(gq["last_fail_valid"], gq["last_fail_class"] == K))
    add("ghost/clock-monotone", "C02", z3.And(gq["now"] >= gp["now"], gq["elapsed_reads"] >= gp["elapsed_reads"]))
    add("ghost/elapsed-is-rounded-clock", "C02",
        z3.Implies(gq["elapsed_reads"] > gp["elapsed_reads"],
                   z3.And(gq["last_elapsed"] - (gq["last_elapsed_t"] - start_mono) <= EPS / 2,
                          (gq["last_elapsed_t"] - start_mono) - gq["last_elapsed"] <= EPS / 2,
                          gq["last_elapsed_t"] >= gp["now"], gq["last_elapsed_t"] <= gq["now"])))
    add("ghost/post-sleep-read", "C02",
        z3.And(z3.Implies(gq["need_post_sleep_read"], z3.And(gp["need_post_sleep_read"], gq["elapsed_reads"] == gp["elapsed_reads"])),
               z3.Implies(z3.Not(gp["need_post_sleep_read"]), z3.And(gq["post_sleep_elapsed"] == gp["post_sleep_elapsed"],
                                                                     gq["post_sleep_t"] == gp["post_sleep_t"])),
               z3.Implies(z3.And(gp["need_post_sleep_read"], z3.Not(gq["need_post_sleep_read"])),
                          z3.And(gq["post_sleep_elapsed"] - (gq["post_sleep_t"] - start_mono) <= EPS / 2,
                                 (gq["post_sleep_t"] - start_mono) - gq["post_sleep_elapsed"] <= EPS / 2))))
    add("ghost/final-failure-record", "C11",
        z3.And(gq["last_cls"] == K, gq["last_cls_ident"] == a["cls_ident"], gq["last_cause"] == cause, gq["last_op_was_failure"],
               gq["fail_ident"] == z3.If(is_exc_cause, a["exc"][1] if a["exc"][1] is not None else z3.IntVal(-1),
                                         a["result"][1] if a["result"][1] is not None else z3.IntVal(-1))))
    add("stable/_last_strategy-or-selected", "C05",
        z3.Or(sv.same_opt(post.f["_last_strategy"], pre.f["_last_strategy"]),
              z3.And(z3.Not(post.none("_last_strategy")), post.val("_last_strategy") == w.strategy_ident(K))))
    if res is None:
        # exceptional exit: raised by the strategy (any class) or a non-Exception from an observability hook
        add("exc/no-second-strategy-call", "C05", gq["strat_calls_attempt"] <= gp["strat_calls_attempt"] + 1)
        add("exc/prev_sleep", "C05", z3.Or(sv.same_opt(post.f["prev_sleep"], pre.f["prev_sleep"]), gq["n_retry"] == gp["n_retry"] + 1))
        add("exc/tokens", "C03", z3.And(gq["tokens"] >= gp["tokens"], gq["tokens"] <= gp["tokens"] + 1,
                                        gq["consume_calls"] <= gp["consume_calls"] + 1))
        add("exc/token-only-with-retry-event", "C03", gq["tokens"] - gp["tokens"] <= gq["n_retry"] - gp["n_retry"])
        add("exc/events", "C14", z3.And(gq["n_retry"] + gq["n_term"] <= gp["n_retry"] + gp["n_term"] + 1,
                                        gq["n_retry"] >= gp["n_retry"], gq["n_term"] >= gp["n_term"]))
        return out
    is_retry = res["is_retry"]
    sleep = res["sleep"]
    reason_none = post.none("last_stop_reason")
    reason = post.val("last_stop_reason")
    strat_def = w.strategy_defined(K)
    budget_cfg = z3.Not(w.budget.none)
    rem = w.deadline.s - gq["last_elapsed"]
    # ---------------- retry branch: everything the property says must hold when a retry is granted
    retry_facts = [
        ("retry/class-retryable", "C01", z3.Not(nonretry)),
        ("retry/has-strategy", "C03", strat_def),
        ("retry/per-class-cap-not-reached", "C01", z3.Not(exceeded)),
        ("retry/unknown-cap-not-reached", "C01", z3.Not(unk_exceeded)),
        ("retry/global-cap-not-reached", "C03", attempt < w.max_attempts.t),
        ("retry/deadline-not-passed", "C02", z3.And(gq["last_elapsed"] < w.deadline.s, gq["elapsed_reads"] > gp["elapsed_reads"])),
        ("retry/budget-granted", "C03", z3.If(budget_cfg, z3.And(gq["tokens"] == gp["tokens"] + 1, gq["consume_calls"] == gp["consume_calls"] + 1),
                                              z3.And(gq["tokens"] == gp["tokens"], gq["consume_calls"] == gp["consume_calls"]))),
        ("retry/strategy-called-exactly-once", "C05", gq["strat_calls_attempt"] == gp["strat_calls_attempt"] + 1),
        ("retry/strategy-is-the-registered-one", "C05", gq["strat_fn"] == w.strategy_ident(K)),
        ("retry/strategy-context", "C05",
         z3.And(gq["strat_arg_attempt"] == attempt, gq["strat_arg_cls_ident"] == a["cls_ident"],
                gq["strat_arg_cause"] == cause, gq["strat_arg_remaining"] == rem,
                gq["strat_arg_prev_none"] == pre.none("prev_sleep"),
                z3.Implies(z3.Not(pre.none("prev_sleep")), gq["strat_arg_prev"] == pre.val("prev_sleep").v
                           if pre.val("prev_sleep") is not None else z3.BoolVal(True)))),
        ("retry/delay-is-sanitised-strategy-output", "C05",
         z3.And(sleep.k == FIN, sleep.v == sanitise(gq["strat_ret_k"], gq["strat_ret_v"], rem))),
        ("retry/delay-within-remaining", "C02", z3.And(sleep.v >= 0, sleep.v <= rem, gq["remaining_at_decision"] == rem)),
        ("retry/prev_sleep-updated", "C05", z3.And(z3.Not(post.none("prev_sleep")),
                                                   post.val("prev_sleep").k == FIN if post.val("prev_sleep") is not None else z3.BoolVal(False),
                                                   post.val("prev_sleep").v == sleep.v if post.val("prev_sleep") is not None else z3.BoolVal(False))),
        ("retry/one-retry-event", "C14", z3.And(gq["n_retry"] == gp["n_retry"] + 1, gq["n_term"] == gp["n_term"],
                                                gq["last_retry_attempt"] == attempt, gq["last_retry_sleep"] == sleep.v)),
        ("retry/stop-reason-untouched", "C03", sv.same_opt(post.f["last_stop_reason"], pre.f["last_stop_reason"])),
        ("retry/context-is-strategy-context", "C16", res["ctx_ident"] == gq["strat_ctx_ident"]),
        ("retry/_last_strategy", "C05", z3.And(z3.Not(post.none("_last_strategy")), post.val("_last_strategy") == w.strategy_ident(K))),
    ]
    for n, prop, f in retry_facts:
        add(n, prop, z3.Implies(is_retry, f))
    # ---------------- give-up branch: the reported stop reason is one that actually holds
    giveup = z3.Not(is_retry)
    add("raise/stop-reason-set", "C03", z3.Implies(giveup, z3.Not(reason_none)))
    sound = {
        "MAX_ATTEMPTS_PER_CLASS": exceeded,
        "NON_RETRYABLE_CLASS": nonretry,
        "MAX_UNKNOWN_ATTEMPTS": z3.And(unk, cap_def, post.f["unknown_attempts"] > cap),
        "DEADLINE_EXCEEDED": z3.And(gq["last_elapsed"] >= w.deadline.s, gq["elapsed_reads"] > gp["elapsed_reads"]),
        "NO_STRATEGY": z3.Not(strat_def),
        "BUDGET_EXHAUSTED": z3.And(budget_cfg, gq["consume_calls"] == gp["consume_calls"] + 1, gq["tokens"] == gp["tokens"]),
        "MAX_ATTEMPTS_GLOBAL": attempt >= w.max_attempts.t,
    }
    add("raise/stop-reason-is-a-failure-reason", "C03",
        z3.Implies(giveup, z3.Or([reason == R(r) for r in sound])))
    for r, cond in sound.items():
        add(f"raise/stop-reason-holds/{r}", "C03", z3.Implies(z3.And(giveup, reason == R(r)), cond))
        add(f"raise/event-matches-reason/{r}", "C14",
            z3.Implies(z3.And(giveup, reason == R(r)), gq["term_event"] == z3.StringVal(EVENT_OF_REASON[r])))
    add("raise/one-terminal-event", "C14",
        z3.Implies(giveup, z3.And(gq["n_term"] == gp["n_term"] + 1, gq["n_retry"] == gp["n_retry"], gq["term_attempt"] == attempt,
                                  z3.Not(gq["term_reason_none"]), gq["term_reason"] == reason,
                                  z3.Not(gq["term_class_none"]), gq["term_class"] == K,
                                  z3.Not(gq["term_cause_none"]), gq["term_cause"] == cause,
                                  gq["term_exc_none"] == a["exc"][0],
                                  z3.Implies(z3.Not(a["exc"][0]), gq["term_exc"] == a["exc"][1]) if a["exc"][1] is not None else z3.BoolVal(True))))
    add("raise/no-delay-recorded", "C05", z3.Implies(giveup, sv.same_opt(post.f["prev_sleep"], pre.f["prev_sleep"])))
    add("raise/no-token-spent", "C03", z3.Implies(giveup, gq["tokens"] == gp["tokens"]))
    add("raise/strategy-at-most-once", "C05",
        z3.Implies(giveup, z3.And(gq["strat_calls_attempt"] <= gp["strat_calls_attempt"] + 1,
                                  z3.Implies(gq["strat_calls_attempt"] == gp["strat_calls_attempt"] + 1, reason == R("BUDGET_EXHAUSTED")))))
    # priority of reasons = the order of the checks (pins "no premature give-up": a later reason only if the earlier did not hold)
    add("raise/priority", "C03",
        z3.Implies(giveup, z3.And(
            z3.Implies(exceeded, reason == R("MAX_ATTEMPTS_PER_CLASS")),
            z3.Implies(z3.And(z3.Not(exceeded), nonretry), reason == R("NON_RETRYABLE_CLASS")),
            z3.Implies(z3.And(z3.Not(exceeded), z3.Not(nonretry), unk_exceeded), reason == R("MAX_UNKNOWN_ATTEMPTS")))))
    # C02 (d): a failure observed at or after the deadline is never retried (clock granularity 1us)
    add("C02/eps/failure-at-or-after-deadline-not-retried", "C02",
        z3.Implies(z3.And(is_retry), gq["last_elapsed_t"] - start_mono < w.deadline_s + EPS))
    return out


def hf_args_view(it, classification, attempt, cause, exc, result):
    return {
        "K": classification.fields["klass"].t,
        "cls_ident": classification.ident,
        "attempt": term(attempt),
        "cause": sterm(cause),
        "exc": sv.opt_view(it, exc, lambda v: v.ident),
        "result": sv.opt_view(it, result, lambda v: ops.ident_of(v)),
    }


def hf_requires(it, st, a, gp):
    """preconditions asserted at call sites (and assumed when verifying the body)"""
    return [
        ("no-terminal-event-yet", "C14", gp["n_term"] == 0),
        ("retry-events-so-far", "C14", gp["n_retry"] == a["attempt"] - 1),
        ("state-wf", "C01", sv.wf_state(it, st)),
        ("cause-literal", "C04", z3.Or(a["cause"] == z3.StringVal("exception"), a["cause"] == z3.StringVal("result"))),
    ]


def c_handle_failure(it, fv, args, kwargs, node):
    st = args[0]
    w, g, p = W(it), G(it), it.path
    a = hf_args_view(it, kwargs["classification"], kwargs["attempt"], kwargs["cause"], kwargs["exc"], kwargs["result"])
    trace(it, "_handle_failure", kwargs["classification"], kwargs["attempt"], kwargs["cause"], kwargs["exc"], kwargs["result"])
    site = f"{fk_of(it)}/call:_handle_failure"
    for n, prop, f in hf_requires(it, st, a, g):
        p.oblige(f"{site}/requires/{n}", f, prop=None)
    pre = sv.View(it, st)
    gp = g.copy()
    outcome = p.choose(3, "_handle_failure")  # 0 normal, 1 strategy raised, 2 hook raised a non-Exception
    sv.install_fresh(it, st, prefix="hf")
    post = sv.View(it, st)
    gq_fresh = Ghost(it, fresh=True, prefix="hf")
    for k in GHOST_MODIFIED_BY_HF:
        g[k] = gq_fresh[k]
    it.path.ghost["now"] = g["now"]
    start = term(st.fields["start_mono"])
    if outcome == 0:
        is_retry = z3.Bool(fresh_name("hf_retry"))
        sleep = SFloat(z3.IntVal(FIN), z3.Real(fresh_name("hf_sleep")))
        ctx = sv.fresh_ctx(it, kwargs["attempt"], kwargs["classification"], kwargs["cause"], prefix="hf_ctx")
        res = {"is_retry": is_retry, "sleep": sleep, "ctx_ident": ctx.ident}
        for n, prop, f in hf_relation(it, w, pre, post, a, res, gp, g, start):
            p.assume(f)
        p.assume(sv.wf_state(it, st))
        dec_ci = it.tree.cls("redress.policy.state:_RetryDecision")
        if p.branch(is_retry):
            return Obj(dec_ci, {"action": "retry", "sleep_s": Sym(sleep.v, "real"), "context": ctx}, frozen=True)
        return Obj(dec_ci, {"action": "raise", "sleep_s": 0.0, "context": None}, frozen=True)
    for n, prop, f in hf_relation(it, w, pre, post, a, None, gp, g, start):
        p.assume(f)
    p.assume(sv.wf_state(it, st))
    if outcome == 1:
        # the selected strategy raised: only possible once the ladder reached the strategy call
        p.assume(g["strat_calls_attempt"] == gp["strat_calls_attempt"] + 1)
        env_raise(it, "strategy")
    any_hook = z3.Or(z3.Not(T(it.is_none(st.fields["on_metric"]))), z3.Not(T(it.is_none(st.fields["on_log"]))))
    p.assume(any_hook)
    env_raise(it, "hook", only_base=True)


# ---------------------------------------------------------------------------------------------
#  tasks: bodies against their contracts
# ---------------------------------------------------------------------------------------------
def t_handle_failure(it, cause_index=0):
    """HF proved against the real body of _handle_failure (emit / elapsed / consume by contract)."""
    install_state_contracts(it, hf=False)
    tree = it.tree

    def h(it):
        w = RetryWorld(it)
        st = sv.make_state(it, w)
        g = Ghost(it, fresh=True, prefix="pre")
        it.path.ghost["G"] = g
        it.path.ghost["now"] = g["now"]
        attempt = fint("attempt")
        w.attempt = None  # the C03 last-attempt obligations are asserted at runner level
        cause = ["exception", "result"][cause_index]
        ci = tree.cls("redress.classify:Classification")
        ra = fopt("retry_after_s", fxfloat("retry_after_s"))
        cls = Obj(ci, {"klass": it.fresh_enum(w.ec, "klass"), "retry_after_s": ra, "details": fref("details")}, frozen=True,
                  ident=z3.Int(fresh_name("classification_id")))
        exc = it.fresh_exc("the_exc", origin="func") if cause == "exception" else None
        result = None if cause == "exception" else fref("the_result")
        a = hf_args_view(it, cls, attempt, cause, exc, result)
        for n, prop, f in hf_requires(it, st, a, g):
            it.path.assume(f)
        it.path.assume(term(st.fields["start_mono"]) <= g["now"])
        pre = sv.View(it, st)
        gp = g.copy()
        start = term(st.fields["start_mono"])
        r = call_catch(it, BoundV(st, FuncV(tree.func(K_HF))), [],
                       {"classification": cls, "attempt": attempt, "cause": cause, "exc": exc, "result": result})
        post = sv.View(it, st)
        base = K_HF
        if r[0] == "exc":
            e = r[1]
            it.path.oblige(f"{base}/raises/only-strategy-or-hook-baseexception", e.tag in ("strategy", "hook"), prop=None,
                           detail=f"{e.tag} {e!r}")
            for n, prop, f in hf_relation(it, w, pre, post, a, None, gp, g, start):
                it.path.oblige(f"{base}/ensures/{n}", f, prop=None)
            it.path.oblige(f"{base}/ensures/state-wf", sv.wf_state(it, st), prop=None)
            it.path.cover(f"{base}/raises[{e.tag}]")
            return
        dec = r[1]
        act = dec.fields["action"]
        is_retry = z3.BoolVal(act == "retry")
        it.path.oblige(f"{base}/ensures/action-literal", act in ("retry", "raise"), prop=None)
        ctx = dec.fields["context"]
        res = {"is_retry": is_retry, "sleep": to_sfloat(dec.fields["sleep_s"]),
               "ctx_ident": ctx.ident if ctx is not None else z3.IntVal(-1)}
        for n, prop, f in hf_relation(it, w, pre, post, a, res, gp, g, start):
            it.path.oblige(f"{base}/ensures/{n}", f, prop=None)
        it.path.oblige(f"{base}/ensures/state-wf", sv.wf_state(it, st), prop=None)
        if act == "retry":
            it.path.oblige(f"{base}/ensures/retry/context-fields", z3.And(
                term(ctx.fields["attempt"]) == a["attempt"], ctx.fields["classification"].ident == a["cls_ident"]), prop="C05")
        else:
            it.path.oblige(f"{base}/ensures/raise/no-context", ctx is None, prop=None)
        # frame: only the declared ghost variables moved
        for k in g.v:
            if k not in GHOST_MODIFIED_BY_HF:
                same = g.v[k].eq(gp.v[k]) if isinstance(g.v[k], z3.ExprRef) else g.v[k] == gp.v[k]
                if not same:
                    it.path.oblige(f"{base}/frame/ghost/{k}", g.v[k] == gp.v[k], prop=None)
        it.path.cover(f"{base}/{act}")
        if act == "raise":
            nm = it.enum_concrete_name(it.force(st.fields["last_stop_reason"]))
            it.path.cover(f"{base}/raise/{nm}")

    return h


def t_emit(it):
    """C15/C14: emit's body - both hooks get the same event, Exception is confined, nothing else is touched."""
    install_env(it)
    tree = it.tree

    def h(it):
        w = RetryWorld(it)
        st = sv.make_state(it, w)
        pre = sv.View(it, st)
        event = fstr("event")
        attempt, sleep_s = fint("attempt"), freal("sleep_s")
        klass = fopt("klass", it.fresh_enum(w.ec, "klass"))
        exc = fopt("exc", it.fresh_exc("exc"))
        reason = fopt("stop_reason", it.fresh_enum(w.sr, "stop_reason"))
        cause = fopt("cause", fstr("cause"))
        ci = tree.cls("redress.classify:Classification")
        classification = fopt("classification", Obj(ci, {"klass": it.fresh_enum(w.ec, "cklass"),
                                                         "retry_after_s": fopt("ra", fxfloat("ra")),
                                                         "details": fref("details")}, frozen=True))
        writes = []
        it.field_hooks.append(lambda it_, o, attr, mode, node: writes.append((o, attr)) if mode == "write" and o is st else None)
        it.attr_models["__name__"] = lambda it_, o, attr, node: fstr("clsname")
        r = call_catch(it, BoundV(st, FuncV(tree.func(K_EMIT))),
                       [event, attempt, sleep_s, klass, exc, reason, cause, classification])
        calls = it.path.ghost.get("hook_calls", [])
        base = K_EMIT
        p = it.path
        m_none = T(it.is_none(st.fields["on_metric"]))
        l_none = T(it.is_none(st.fields["on_log"]))
        nm = sum(1 for c in calls if c[0] == "on_metric")
        nl = sum(1 for c in calls if c[0] == "on_log")
        p.oblige(f"{base}/C15/state-untouched", not writes and bool(z3.is_true(z3.simplify(sv.same_view(pre, sv.View(it, st))))), prop=None)
        if r[0] == "exc":
            e = r[1]
            p.oblige(f"{base}/C15/only-hook-exceptions-escape", e.tag in ("on_metric", "on_log"), prop=None)
            p.oblige(f"{base}/C15/ordinary-exceptions-are-confined", z3.Not(it.lattice.isinstance_cond(e.cls_t, Exception)), prop=None)
            p.oblige(f"{base}/C13/cancellation-from-hook-escapes-unchanged", True, prop=None)
            p.cover(f"{base}/raises")
            return
        p.oblige(f"{base}/C15/on_metric-called-once-iff-configured", z3.If(m_none, nm == 0, nm == 1), prop=None)
        p.oblige(f"{base}/C15/on_log-called-once-iff-configured", z3.If(l_none, nl == 0, nl == 1), prop=None)
        # (no property orders the two hooks: each is fed at most once, in either order)
        p.oblige(f"{base}/C14/each-hook-fed-at-most-once", sorted(c[0] for c in calls) in ([], ["on_metric"], ["on_log"], ["on_log", "on_metric"]),
                 prop=None)
        tags_seen = None
        for tag, args in calls:
            if tag == "on_metric":
                ev, at, sl, tags = args
                tags_seen = tags
                p.oblige(f"{base}/C14/on_metric-args", z3.And(sterm(ev) == event.t, term(at) == attempt.t, rterm(sl) == sleep_s.t), prop=None)
                exp_keys = set()
                check_tags(it, p, base, tags, klass, exc, reason, cause, st.fields["operation"])
            else:
                ev, fields = args
                p.oblige(f"{base}/C14/on_log-event", sterm(ev) == event.t, prop=None)
                p.oblige(f"{base}/C14/on_log-fields-attempt-sleep",
                         z3.And(term(fields.get("attempt")) == attempt.t, rterm(fields.get("sleep_s")) == sleep_s.t)
                         if "attempt" in fields and "sleep_s" in fields else False, prop=None)
                rest = {k: v for k, v in fields.items() if k not in ("attempt", "sleep_s", "retry_after_s")}
                check_tags(it, p, base + "/on_log", rest, klass, exc, reason, cause, st.fields["operation"])
                if tags_seen is not None:
                    p.oblige(f"{base}/C14/log-and-metric-same-tags", set(rest) == set(tags_seen) and all(
                        it.eq(rest[k], tags_seen[k]) is True or rest[k] is tags_seen[k] for k in rest), prop=None)
        p.cover(f"{base}/normal")
        if any(True for c in calls):
            p.cover(f"{base}/hook-called")
        if z3.is_true(z3.simplify(G(it)["hook_raise_count"] > 0)):
            p.cover(f"{base}/hook-raised-and-confined")
            # the other hook still ran: counted by the called-once obligations above

    return h


def check_tags(it, p, base, tags, klass, exc, reason, cause, operation):
    def present(v):
        return z3.Not(T(it.is_none(v)))

    def need(key, cond):
        c = z3.simplify(cond)
        p.oblige(f"{base}/C14/tag/{key}-present-iff-given", (key in tags) == bool(z3.is_true(c)) if (z3.is_true(c) or z3.is_false(c))
                 else False, prop=None, detail=str(c))

    # the path has already decided which optional arguments are None (emit tests each with `is not None`)
    def decided(v):
        c = z3.simplify(present(v))
        if z3.is_true(c) or z3.is_false(c):
            return c
        k = p.known.get(z3.simplify(T(it.is_none(v))).get_id())
        if k is None:
            return c
        return z3.BoolVal(not k)

    need("class", decided(klass))
    need("err", decided(exc))
    need("stop_reason", decided(reason))
    need("cause", decided(cause))
    if "class" in tags:
        kv = it.force(klass)
        p.oblige(f"{base}/C14/tag/class-is-member-name", sterm(it.force(tags["class"])) == sterm(it.getattr_value(kv, "name")), prop=None)
    if "stop_reason" in tags:
        rv = it.force(reason)
        p.oblige(f"{base}/C14/tag/stop_reason-is-value", sterm(it.force(tags["stop_reason"])) == sterm(it.getattr_value(rv, "value")), prop=None)
    if "cause" in tags:
        p.oblige(f"{base}/C14/tag/cause", sterm(it.force(tags["cause"])) == sterm(it.force(cause)), prop=None)
    # operation tag iff operation is truthy
    op_truth = it.truth(operation)
    k = p.known.get(z3.simplify(T(op_truth)).get_id()) if not isinstance(op_truth, bool) else op_truth
    if k is not None:
        p.oblige(f"{base}/C14/tag/operation-iff-truthy", ("operation" in tags) == bool(k), prop=None)


def t_check_abort(it):
    install_state_contracts(it, hf=False)
    tree = it.tree
    key = SKEY + ".check_abort"

    def h(it):
        w = RetryWorld(it)
        st = sv.make_state(it, w)
        g = Ghost(it, fresh=True, prefix="pre")
        it.path.ghost["G"] = g
        it.path.ghost["now"] = g["now"]
        it.path.assume(g["n_term"] == 0)
        pre = sv.View(it, st)
        gp = g.copy()
        attempt = fint("attempt")
        r = call_catch(it, BoundV(st, FuncV(tree.func(key))), [attempt])
        post = sv.View(it, st)
        p = it.path
        cfg = z3.Not(w.abort_if.none)
        if r[0] == "exc":
            e = r[1]
            if e.tag == "hook":
                p.cover(f"{key}/raises[hook]")
                return
            ab = it.lattice.isinstance_cond(e.cls_t, tree.cls("redress.errors:AbortRetryError"))
            p.oblige(f"{key}/C13/raises-AbortRetryError", ab, prop="C13")
            p.oblige(f"{key}/C13/only-when-abort_if-true", z3.And(cfg, g["aborted"], g["polls"] == gp["polls"] + 1), prop="C13")
            p.oblige(f"{key}/C13/stop-reason-ABORTED", z3.And(z3.Not(post.none("last_stop_reason")),
                                                              post.val("last_stop_reason") == it.enum_const(w.sr, "ABORTED")), prop="C13")
            p.oblige(f"{key}/C14/one-aborted-event", z3.And(g["n_term"] == 1, g["term_event"] == z3.StringVal("aborted"),
                                                            g["term_attempt"] == attempt.t, z3.Not(g["term_reason_none"]),
                                                            g["term_reason"] == it.enum_const(w.sr, "ABORTED"),
                                                            g["term_class_none"], g["term_exc_none"], g["term_cause_none"]), prop="C14")
            p.oblige(f"{key}/C13/rest-untouched", sv.same_view(pre, post, [f for f in sv.FIELDS if f != "last_stop_reason"]), prop="C13")
            p.cover(f"{key}/aborts")
            return
        p.oblige(f"{key}/C13/polled-iff-configured", z3.If(cfg, z3.And(g["polled"], g["polls"] == gp["polls"] + 1),
                                                          g["polls"] == gp["polls"]), prop="C13")
        p.oblige(f"{key}/C13/returns-only-if-not-aborting", z3.Implies(cfg, g["aborted"] == gp["aborted"]), prop="C13")
        p.oblige(f"{key}/C13/no-effect", z3.And(sv.same_view(pre, post), g["n_term"] == 0, g["n_retry"] == gp["n_retry"]), prop="C13")
        p.cover(f"{key}/continues")

    return h


ASSUME = ["emit/elapsed/Budget.consume are used through their contracts inside _handle_failure; emit's body is proved in task state.emit, "
          "Budget.consume in C10"]

TASKS = [
    Task("state._handle_failure[exception]", lambda it: t_handle_failure(it, 0), ["C01", "C02", "C03", "C04", "C05", "C09", "C10", "C11", "C12", "C13", "C14", "C15", "C16"],
         [K_HF, SKEY + ".record_failure", "redress.policy.base:_BaseRetryPolicy._select_strategy",
          "redress.policy.state:_build_backoff_context"]),
    Task("state._handle_failure[result]", lambda it: t_handle_failure(it, 1), ["C01", "C02", "C03", "C04", "C05", "C09", "C10", "C11", "C12", "C13", "C14", "C15", "C16"],
         [K_HF, SKEY + ".record_failure"]),
    Task("state.emit", t_emit, ["C01", "C02", "C03", "C04", "C05", "C09", "C10", "C11", "C12", "C13", "C14", "C15", "C16"], [K_EMIT]),
    Task("state.check_abort", t_check_abort, ["C13", "C14"], [SKEY + ".check_abort"]),
]
for _t in TASKS:
    _t.assumptions = ASSUME
    if "_handle_failure" in _t.name:
        _t.weight = 15
        _t.split_depth = 8
        _t.split_chunks = 12
    if _t.name == "state.emit":
        _t.weight = 5
        _t.split_depth = 6
        _t.split_chunks = 6


# ---------------------------------------------------------------------------------------------
#  constructors, timeline collector, call-graph audit
# ---------------------------------------------------------------------------------------------
def t_base_init(it):
    """_BaseRetryPolicy.__init__ establishes what RetryWorld assumes about a policy object (deadline = timedelta(seconds=deadline_s), ...)"""
    stdlib.install_clock(it)
    stdlib.install_timedelta(it)
    key = "redress.policy.base:_BaseRetryPolicy.__init__"
    it.contracts["redress.strategies:_normalize_strategy"] = lambda it_, fv, a, k, n: a[0]

    def h(it):
        from pyvc.values import ClassV
        p = it.path
        ec = it.tree.cls("redress.errors:ErrorClass")
        kw = {
            "classifier": EnvFn("classifier"), "result_classifier": fopt("rc", EnvFn("result_classifier")),
            "strategy": fopt("strategy", EnvFn("strategy")),
            "strategies": fopt("strategies", EnumMap(ec, {k: fopt(f"s_{k}", EnvFn("strategy")) for k in CLASSES[-2:]})),
            "sleep": fopt("sleep", EnvFn("sleep_fn")), "before_sleep": fopt("bs", EnvFn("before_sleep")),
            "sleeper": fopt("sleeper", EnvFn("sleeper")), "budget": fopt("budget", Obj(it.tree.cls("redress.budget:Budget"), {})),
            "attempt_timeout_s": fopt("ato", freal("ato")), "deadline_s": freal("deadline_s"), "max_attempts": fint("max_attempts"),
            "max_unknown_attempts": fopt("mua", fint("mua")),
            "per_class_max_attempts": fopt("pcm", EnumMap(ec, {k: fopt(f"l_{k}", fint(f"l_{k}")) for k in CLASSES[:2]})),
        }
        r = call_catch(it, ClassV(it.tree.cls("redress.policy.base:_BaseRetryPolicy")), [], kw)
        none_strat = z3.And(kw["strategy"].none, kw["strategies"].none)
        bad_to = z3.And(z3.Not(kw["attempt_timeout_s"].none), kw["attempt_timeout_s"].val.t <= 0)
        if r[0] == "exc":
            p.oblige(f"{key}/raises/ValueError-only-for-missing-strategy-or-bad-timeout",
                     z3.And(it.lattice.isinstance_cond(r[1].cls_t, ValueError), z3.Or(none_strat, bad_to)), prop=None)
            p.cover(f"{key}/raises")
            return
        o = r[1].fields
        p.oblige(f"{key}/ensures/valid", z3.And(z3.Not(none_strat), z3.Not(bad_to)), prop=None)
        dl = o["deadline"]
        p.oblige(f"{key}/ensures/deadline-is-rounded-deadline_s",
                 z3.And(dl.s - kw["deadline_s"].t <= EPS / 2, kw["deadline_s"].t - dl.s <= EPS / 2) if isinstance(dl, TimeDelta) else False,
                 prop=None, detail=None if isinstance(dl, TimeDelta) else f"deadline is {dl!r}")
        for f, a in (("classifier", "classifier"), ("result_classifier", "result_classifier"), ("sleep", "sleep"),
                     ("before_sleep", "before_sleep"), ("sleeper", "sleeper"), ("budget", "budget"),
                     ("attempt_timeout_s", "attempt_timeout_s"), ("max_attempts", "max_attempts"),
                     ("max_unknown_attempts", "max_unknown_attempts")):
            p.oblige(f"{key}/ensures/stores/{f}", o[f] is kw[a], prop=None)
        p.oblige(f"{key}/ensures/default-strategy", T(it.is_(o["_default_strategy"], kw["strategy"])) if o["_default_strategy"] is not None
                 else kw["strategy"].none, prop=None)
        # per-class tables are copied entry by entry
        for mapname, src in (("_strategies", kw["strategies"]), ("per_class_max_attempts", kw["per_class_max_attempts"])):
            got = o[mapname]
            for k in CLASSES:
                sv_ = src.val.slots.get(k)
                present_src = z3.And(z3.Not(src.none), z3.Not(sv_.none)) if sv_ is not None else z3.BoolVal(False)
                gv = got.slots.get(k) if isinstance(got, EnumMap) else None
                if isinstance(gv, SOpt):
                    present_got, gval = z3.Not(gv.none), gv.val
                else:
                    present_got, gval = z3.BoolVal(gv is not None), gv
                p.oblige(f"{key}/ensures/{mapname}/{k}", present_got == present_src, prop=None)
                if gval is not None and sv_ is not None:
                    same = T(it.is_(gval, sv_.val)) if isinstance(gval, EnvFn) else T(it.eq(gval, sv_.val))
                    p.oblige(f"{key}/ensures/{mapname}/{k}/value", z3.Implies(present_got, same), prop=None)
        p.cover(f"{key}/normal")

    return h


def t_timeline(it):
    """C14: the timeline collector records every event (same attempt / event / sleep_s, class, stop reason and cause recovered from the
    tags) and forwards the identical arguments to on_metric; an Exception from on_metric does not lose the recorded event."""
    stdlib.install_clock(it)
    key = "redress.policy.runner.timeline:_resolve_timeline"

    def on_metric(it_, fn, args, kwargs, node):
        it_.path.ghost["metric_args"] = args
        it_.path.ghost["timeline_len_at_metric"] = len(it_.path.ghost["tl"].fields["events"])
        if it_.path.choose(2, "on_metric") == 1:
            raise PyRaise(it_.fresh_exc("on_metric", origin="on_metric"))
        return None

    it.env_models["on_metric"] = on_metric

    def h(it):
        p = it.path
        ec = it.tree.cls("redress.errors:ErrorClass")
        sr = it.tree.cls("redress.errors:StopReason")
        om = fopt("on_metric", EnvFn("on_metric"))
        capture = p.choose(3, "capture")  # None/False, True, a RetryTimeline instance
        tlc = it.tree.cls("redress.policy.types:RetryTimeline")
        given = Obj(tlc, {"events": []})
        cap = [None, True, given][capture]
        r = it.call_value(FuncV(it.tree.func(key)), [cap, om], {})
        tl, hook = r
        if capture == 0:
            p.oblige(f"{key}/ensures/no-capture=>no-timeline-and-metric-hook-unchanged", tl is None and hook is om, prop=None)
            p.cover(f"{key}/no-capture")
            return
        p.oblige(f"{key}/ensures/timeline-object", isinstance(tl, Obj) and tl.cls.name == "RetryTimeline" and (capture != 2 or tl is given), prop=None)
        p.ghost["tl"] = tl
        klass = fopt("klass", it.fresh_enum(ec, "klass"))
        reason = fopt("reason", it.fresh_enum(sr, "reason"))
        cause = fopt("cause", fstr("cause"))
        tags = {}
        if not p.branch(klass.none):
            tags["class"] = it.getattr_value(klass.val, "name")
        if not p.branch(reason.none):
            tags["stop_reason"] = it.getattr_value(reason.val, "value")
        if not p.branch(cause.none):
            p.assume(z3.Or(cause.val.t == z3.StringVal("exception"), cause.val.t == z3.StringVal("result")))
            tags["cause"] = cause.val
        event, attempt, sleep_s = fstr("event"), fint("attempt"), freal("sleep_s")
        rr = call_catch(it, hook, [event, attempt, sleep_s, tags])
        evs = tl.fields["events"]
        p.oblige(f"{key}/hook/C14/one-timeline-event-per-emitted-event", len(evs) == 1, prop=None)
        if len(evs) == 1:
            e = evs[0].fields
            p.oblige(f"{key}/hook/C14/timeline-event-mirrors-the-emitted-event",
                     z3.And(term(e["attempt"]) == attempt.t, sterm(e["event"]) == event.t, rterm(e["sleep_s"]) == sleep_s.t), prop=None)
            for fld, opt in (("error_class", klass), ("stop_reason", reason)):
                n, v = ops.opt_parts(e[fld])
                p.oblige(f"{key}/hook/C14/timeline-{fld}", z3.And(n == opt.none, z3.Implies(z3.Not(opt.none), v.t == opt.val.t) if v is not None else opt.none), prop=None)
            n, v = ops.opt_parts(e["cause"])
            p.oblige(f"{key}/hook/C14/timeline-cause", z3.And(n == cause.none, z3.Implies(z3.Not(cause.none), sterm(v) == cause.val.t) if v is not None else cause.none), prop=None)
        ma = p.ghost.get("metric_args")
        # the order of the two sinks is not part of any property: only that each gets the event, whatever the other does
        p.oblige(f"{key}/hook/C14/on_metric-gets-the-same-event",
                 (ma is not None and ma[0] is event and ma[1] is attempt and ma[2] is sleep_s and ma[3] is tags) if z3.is_false(z3.simplify(om.none)) or p.known.get(om.none.get_id()) is False
                 else ma is None, prop=None)
        if rr[0] == "exc":
            p.oblige(f"{key}/hook/C15/only-on_metric-errors-escape-the-wrapper(confined-by-emit)", rr[1].tag == "on_metric", prop="C15")
        p.cover(f"{key}/capture")

    return h


def t_audit_no_breaker_in_runner(it):
    """C09: failed attempts inside a call are not reported to the breaker - the retry layer never touches a breaker at all (AST audit)."""
    import ast as _ast

    def h(it):
        bad = []
        mods = [m for n, m in it.tree.modules.items() if n.startswith("redress.policy.runner") or n in (
            "redress.policy.state", "redress.policy.retry_helpers", "redress.policy.retry_sync", "redress.policy.retry_async", "redress.policy.base")]
        for m in mods:
            for node in _ast.walk(m.tree):
                if isinstance(node, _ast.Attribute) and node.attr in ("circuit_breaker", "breaker", "record_cancel", "allow"):
                    bad.append((m.name, node.lineno, node.attr))
                if isinstance(node, _ast.Attribute) and node.attr in ("record_success", "record_failure"):
                    # _RetryState.record_failure/record_success and the adaptive-strategy hooks are not the breaker's
                    owner = _ast.unparse(node.value)
                    if owner not in ("self", "state", "strategy") and not owner.endswith("strategy"):
                        bad.append((m.name, node.lineno, _ast.unparse(node)))
                if isinstance(node, (_ast.Import, _ast.ImportFrom)):
                    names = [a.name for a in node.names]
                    if any("circuit" in n.lower() for n in names) or (isinstance(node, _ast.ImportFrom) and node.module and "circuit" in node.module):
                        bad.append((m.name, node.lineno, "import circuit"))
        it.path.oblige("C09/audit/retry-layer-never-touches-a-breaker", not bad, prop="C09", detail=bad[:10])
        it.path.cover("C09/audit")

    return h


TASKS += [
    Task("base._BaseRetryPolicy.__init__", t_base_init, ["C01", "C02", "C03", "C05"], ["redress.policy.base:_BaseRetryPolicy.__init__"]),
    Task("runner.timeline", t_timeline, ["C14", "C15"], ["redress.policy.runner.timeline:_resolve_timeline",
                                                         "redress.policy.runner.timeline:_resolve_timeline.<locals>.hook",
                                                         "redress.policy.runner.timeline:_TimelineCollector.record"]),
    Task("audit.no-breaker-in-retry-layer", t_audit_no_breaker_in_runner, ["C09"], []),
]
