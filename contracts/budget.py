"""Sidecar contracts for redress.budget:Budget (C10; lock discipline is in contracts/locks.py).

Ghost grant history: the deque model (arr, lo, hi) keeps popped elements below `lo`, so
G == arr[0..hi) is the sequence of *all* grants ever appended and `_events == G[lo..hi)` holds by
construction of the model (popleft only advances lo; append only writes at hi).

Class invariant INV(b, last):
  0 <= lo <= hi ; sorted(G) ; every grant <= last (the latest clock reading seen by the budget)
  pruned prefix: forall i < lo. G[i] <= last - window_s
  live bound:    hi - lo <= max_retries
  WINDOW:        forall i >= 0. i + max_retries < hi  =>  G[i + max_retries] - G[i] >= window_s
WINDOW is the property: in a sorted sequence no half-open interval [t, t + window_s) contains
more than max_retries grants iff any max_retries+1 consecutive grants span >= window_s
(lemma C10/window_equiv below).
"""
from __future__ import annotations

import z3

from pyvc import stdlib
from pyvc.harness import Task, call_catch, fdeque, fint, freal, T, param
from pyvc.interp import LoopSpec
from pyvc.values import BoundV, FuncV, LockV, Obj, Sym, fresh_name

KEY = "redress.budget:Budget"
P = "C10"


def budget_inv(arr, lo, hi, maxr, w, last):
    i = z3.Int("i!q")
    j = z3.Int("j!q")
    return [
        ("bounds", z3.And(0 <= lo, lo <= hi)),
        ("sorted", z3.ForAll([i, j], z3.Implies(z3.And(0 <= i, i <= j, j < hi), arr[i] <= arr[j]))),
        ("past", z3.ForAll([i], z3.Implies(z3.And(0 <= i, i < hi), arr[i] <= last))),
        ("pruned-prefix", z3.ForAll([i], z3.Implies(z3.And(0 <= i, i < lo), arr[i] <= last - w))),
        ("live-bound", hi - lo <= maxr),
        ("WINDOW", z3.ForAll([i], z3.Implies(z3.And(0 <= i, i + maxr < hi), arr[i + maxr] - arr[i] >= w))),
    ]


def make_budget(it, tree):
    ci = tree.cls(KEY)
    dq = fdeque("events")
    b = Obj(ci, {
        "max_retries": fint("max_retries"),
        "window_s": freal("window_s"),
        "_lock": LockV(),
        "_events": dq,
    })
    from pyvc.harness import adopt_unknown_fields
    adopt_unknown_fields(it, b, ci, {"max_retries": 1, "window_s": 1.0}, set(b.fields))
    last = z3.Real(fresh_name("last_now"))
    it.path.ghost["now"] = last
    from contracts import locks
    b.monitor = locks.install_monitor(it, b, KEY)
    it.path.ghost["budget_obj"] = b
    maxr, w = b.fields["max_retries"].t, b.fields["window_s"].t
    it.path.assume(z3.And(maxr >= 0, w > 0))  # established by __init__ (task budget.__init__)
    for _, f in budget_inv(dq.arr, dq.lo, dq.hi, maxr, w, last):
        it.path.assume(f)
    return b, dq, maxr, w, last


def prune_spec():
    """while self._events and self._events[0] <= cutoff: popleft()"""

    def setup(it, env):
        dq = param(env, 0).fields["_events"]
        return {"dq": dq, "lo0": dq.lo, "hi0": dq.hi, "arr0": dq.arr}

    def inv(it, env, idx, ctx):
        dq = ctx["dq"]
        me = param(env, 0)
        cutoff = Sym(param(env, 1).t - me.fields["window_s"].t, "real")  # now - window_s, by parameter position
        i = z3.Int("i!p")
        return [
            ("range", z3.And(ctx["lo0"] <= dq.lo, dq.lo <= dq.hi)),
            ("frame", z3.And(dq.hi == ctx["hi0"], dq.arr == ctx["arr0"])),
            ("popped-expired", z3.ForAll([i], z3.Implies(z3.And(ctx["lo0"] <= i, i < dq.lo), dq.arr[i] <= cutoff.t))),
        ]

    def decreases(it, env, ctx):
        dq = ctx["dq"]
        return dq.hi - dq.lo

    return LoopSpec(inv, setup=setup, decreases=decreases, prop=P, modifies=lambda it, env, ctx: [(ctx['dq'], None)])


def append_spec():
    """for _ in range(cost): self._events.append(now)"""

    def setup(it, env):
        dq = param(env, 0).fields["_events"]
        return {"dq": dq, "lo0": dq.lo, "hi0": dq.hi, "arr0": dq.arr}

    def inv(it, env, idx, ctx):
        dq = ctx["dq"]
        now = Sym(it.path.ghost["now"], "real")  # the one clock reading of this consume()
        k = idx.t if isinstance(idx, Sym) else z3.IntVal(idx)
        i = z3.Int("i!a")
        return [
            ("count", z3.And(dq.lo == ctx["lo0"], dq.hi == ctx["hi0"] + k)),
            ("old-kept", z3.ForAll([i], z3.Implies(i < ctx["hi0"], dq.arr[i] == ctx["arr0"][i]))),
            ("new-are-now", z3.ForAll([i], z3.Implies(z3.And(ctx["hi0"] <= i, i < dq.hi), dq.arr[i] == now.t))),
        ]

    return LoopSpec(inv, setup=setup, prop=P, modifies=lambda it, env, ctx: [(ctx['dq'], None)])


def install(it):
    it.quantified = True
    stdlib.install_clock(it)
    base_clock = it.ext_models["time.monotonic"]

    def guarded_clock(it_, args, kwargs, node):
        b = it_.path.ghost.get("budget_obj")
        if b is not None:
            from contracts import locks
            locks.clock_guard(it_, b.fields["_lock"], KEY + ".<clock call>")
        return base_clock(it_, args, kwargs, node)

    it.ext_models["time.monotonic"] = guarded_clock
    it.loop_specs[("redress.budget:Budget._prune", 1)] = prune_spec()
    it.loop_specs[("redress.budget:Budget.consume", 1)] = append_spec()


def split_point(arr, p, hi, cutoff):
    """p splits the sorted history at cutoff: everything before is <= cutoff, everything from p on is > cutoff."""
    i = z3.Int("i!s")
    return z3.And(
        z3.ForAll([i], z3.Implies(z3.And(0 <= i, i < p), arr[i] <= cutoff)),
        z3.ForAll([i], z3.Implies(z3.And(p <= i, i < hi), arr[i] > cutoff)),
    )


# ---------------------------------------------------------------------------------------------
def t_init(it):
    install(it)
    tree = it.tree

    def h(it):
        ci = tree.cls(KEY)
        maxr, w = fint("max_retries"), freal("window_s")
        from pyvc.values import ClassV
        r = call_catch(it, ClassV(ci), [], {"max_retries": maxr, "window_s": w})
        valid = z3.And(maxr.t >= 0, w.t > 0)
        base = f"{KEY}.__init__"
        if r[0] == "exc":
            it.path.oblige(f"{base}/raises/only-when-invalid", z3.Not(valid), prop=P)
            it.path.oblige(f"{base}/raises/ValueError", it.lattice.isinstance_cond(r[1].cls_t, ValueError), prop=P)
            it.path.cover(f"{base}/raises")
            return
        b = r[1]
        it.path.oblige(f"{base}/ensures/valid-params", valid, prop=P)
        it.path.oblige(f"{base}/ensures/fields",
                       z3.And(b.fields["max_retries"].t == maxr.t, b.fields["window_s"].t == w.t), prop=P)
        dq = b.fields["_events"]
        last = z3.Real("any_last")
        for n, f in budget_inv(dq.arr, dq.lo, dq.hi, maxr.t, w.t, last):
            it.path.oblige(f"{base}/ensures/inv/{n}", f, prop=P)
        it.path.oblige(f"{base}/ensures/empty", dq.hi == dq.lo, prop=P)
        it.path.oblige(f"{base}/ensures/lock", isinstance(b.fields["_lock"], LockV), prop="C17")
        it.path.cover(f"{base}/normal")

    return h


def t_consume(it):
    install(it)
    tree = it.tree

    def h(it):
        b, dq, maxr, w, last = make_budget(it, tree)
        lo0, hi0, arr0 = dq.lo, dq.hi, dq.arr
        cost = fint("cost")
        from pyvc.modelval import arr_slice, val
        pth = it.path
        pth.replay_spec = lambda m: {"component": "budget", "op": "consume", "max_retries": val(m, maxr), "window_s": val(m, w),
                                     "events": arr_slice(m, arr0, lo0, hi0), "now": val(m, pth.ghost["now"]),
                                     **({} if pth.ghost.get("default_cost") else {"cost": val(m, cost.t)})}
        meth = BoundV(b, FuncV(tree.func(KEY + ".consume")))
        # default argument path is exercised separately (cost omitted)
        use_default = it.path.choose(2, "default-cost")
        it.path.ghost["default_cost"] = bool(use_default)
        r = call_catch(it, meth, [] if use_default else [cost])
        c = z3.IntVal(1) if use_default else cost.t
        base = f"{KEY}.consume"
        if r[0] == "exc":
            it.path.oblige(f"{base}/raises/only-cost<1", c < 1, prop=P)
            it.path.oblige(f"{base}/raises/ValueError", it.lattice.isinstance_cond(r[1].cls_t, ValueError), prop=P)
            it.path.oblige(f"{base}/raises/state-unchanged", z3.And(dq.lo == lo0, dq.hi == hi0, dq.arr == arr0), prop=P)
            it.path.cover(f"{base}/raises")
            return
        res = r[1]
        now = it.path.ghost["now"]
        it.path.oblige(f"{base}/ensures/cost>=1", c >= 1, prop=P)
        it.path.oblige(f"{base}/ensures/one-clock-read", it.path.ghost.get("clock_reads", 0) == 1, prop=P)
        from contracts import locks
        locks.exit_obligations(it, b, b.monitor, base)
        # p := lo after pruning is the split point of the *old* history at now - window_s
        # (granted: lo unchanged by the append loop)
        p = dq.lo
        it.path.oblige(f"{base}/ensures/prune-is-split-point", split_point(arr0, p, hi0, now - w), prop=P)
        live = hi0 - p
        rt = T(it.truth(res))
        it.path.oblige(f"{base}/ensures/result-iff-capacity", rt == (live + c <= maxr), prop=P)
        i = z3.Int("i!c")
        it.path.oblige(f"{base}/ensures/history-prefix-kept",
                       z3.ForAll([i], z3.Implies(z3.And(0 <= i, i < hi0), dq.arr[i] == arr0[i])), prop=P)
        it.path.oblige(f"{base}/ensures/granted-appends-cost-now",
                       z3.Implies(rt, z3.And(dq.hi == hi0 + c,
                                             z3.ForAll([i], z3.Implies(z3.And(hi0 <= i, i < dq.hi), dq.arr[i] == now)))),
                       prop=P)
        it.path.oblige(f"{base}/ensures/refused-appends-nothing", z3.Implies(z3.Not(rt), dq.hi == hi0), prop=P)
        for n, f in budget_inv(dq.arr, dq.lo, dq.hi, maxr, w, now):
            it.path.oblige(f"{base}/ensures/inv/{n}", f, prop=P)
        it.path.cover(f"{base}/normal")
        if it.path.feasible(rt):
            it.path.cover(f"{base}/granted")
        if it.path.feasible(z3.Not(rt)):
            it.path.cover(f"{base}/refused")

    return h


def t_remaining(it):
    install(it)
    tree = it.tree

    def h(it):
        b, dq, maxr, w, last = make_budget(it, tree)
        lo0, hi0, arr0 = dq.lo, dq.hi, dq.arr
        from pyvc.modelval import arr_slice, val
        pth = it.path
        pth.replay_spec = lambda m: {"component": "budget", "op": "remaining", "max_retries": val(m, maxr), "window_s": val(m, w),
                                     "events": arr_slice(m, arr0, lo0, hi0), "now": val(m, pth.ghost["now"])}
        meth = BoundV(b, FuncV(tree.func(KEY + ".remaining")))
        r = call_catch(it, meth, [])
        base = f"{KEY}.remaining"
        if r[0] == "exc":
            it.path.oblige(f"{base}/raises/none", False, prop=P)
            return
        now = it.path.ghost["now"]
        p = dq.lo
        it.path.oblige(f"{base}/ensures/prune-is-split-point", split_point(arr0, p, hi0, now - w), prop=P)
        live = hi0 - p
        from pyvc.ops import term
        it.path.oblige(f"{base}/ensures/result", term(r[1]) == z3.If(maxr - live > 0, maxr - live, 0), prop=P)
        it.path.oblige(f"{base}/ensures/history-unchanged", z3.And(dq.hi == hi0, dq.arr == arr0), prop=P)
        from contracts import locks
        locks.exit_obligations(it, b, b.monitor, base)
        for n, f in budget_inv(dq.arr, dq.lo, dq.hi, maxr, w, now):
            it.path.oblige(f"{base}/ensures/inv/{n}", f, prop=P)
        it.path.cover(f"{base}/normal")

    return h


def t_lemma_window(it):
    """C10/window_equiv: for a sorted grant sequence G[0..n), WINDOW implies that no half-open interval
    [t, t+w) contains more than max grants.  Stated without counting: if indices a <= b both lie in
    [t, t+w) then b - a < max (so at most max indices fit).  And conversely a violation of WINDOW
    exhibits max+1 grants inside one interval of length w."""

    def h(it):
        arr = z3.Array("G", z3.IntSort(), z3.RealSort())
        n, maxr = z3.Int("n"), z3.Int("max")
        w, t = z3.Real("w"), z3.Real("t")
        a, b = z3.Int("a"), z3.Int("b")
        i, j = z3.Int("i!l"), z3.Int("j!l")
        it.path.assume(z3.And(maxr >= 0, w > 0, n >= 0))
        srt = z3.ForAll([i, j], z3.Implies(z3.And(0 <= i, i <= j, j < n), arr[i] <= arr[j]))
        window = z3.ForAll([i], z3.Implies(z3.And(0 <= i, i + maxr < n), arr[i + maxr] - arr[i] >= w))
        inside = lambda x: z3.And(t <= arr[x], arr[x] < t + w)
        it.path.oblige("C10/window_equiv/=>",
                       z3.Implies(z3.And(srt, window, 0 <= a, a <= b, b < n, inside(a), inside(b)), b - a < maxr),
                       prop=P)
        # converse: if WINDOW fails at i then the max+1 grants G[i..i+max] all lie in [G[i], G[i]+w)
        k = z3.Int("k")
        it.path.oblige("C10/window_equiv/<=",
                       z3.Implies(z3.And(srt, 0 <= k, k + maxr < n, arr[k + maxr] - arr[k] < w,
                                         k <= a, a <= k + maxr),
                                  z3.And(arr[k] <= arr[a], arr[a] < arr[k] + w)),
                       prop=P)

    return h


FUNCS = [KEY + ".__init__", KEY + ".consume", KEY + ".remaining", KEY + "._prune"]

TASKS = [
    Task("budget.__init__", t_init, [P, "C17"], [KEY + ".__init__"]),
    Task("budget.consume", t_consume, [P, "C17"], [KEY + ".consume", KEY + "._prune"]),
    Task("budget.remaining", t_remaining, [P, "C17"], [KEY + ".remaining", KEY + "._prune"]),
    Task("budget.lemma.window_equiv", t_lemma_window, [P], []),
]

for _t in TASKS:
    _t.replay_script = "model_replay.py"
