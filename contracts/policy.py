"""Policy layer: Policy/AsyncPolicy call/execute with the breaker (C07 policy level, C08, C09; C14/C15 for breaker events).

The breaker is used through its *proved* triples (contracts/circuit.py) abstracted to (state, probe);
Retry.call / Retry.execute through the delivery contracts proved on the runners (C04/C11/C13):
   call    -> returns a value | raises AbortRetryError | raises RetryExhaustedError(last_class) | raises any other exception
              (the operation's own, incl. every BaseException class, or a callback's)
   execute -> returns RetryOutcome(ok, stop_reason, last_class) | raises any exception
Ghost: `admitted` (set by an admitting allow()), `records` (every record_* call on the breaker, in order)."""
from __future__ import annotations

import z3

from pyvc import ops, stdlib
from pyvc.harness import T, Task, call_catch, fbool, fint, fopt, freal, fref, fstr
from pyvc.interp_expr import PyRaise
from pyvc.ops import sterm, term
from pyvc.values import (BoundV, ClassV, EnumVal, EnvFn, FuncV, Obj, Ref, SOpt, Sym, fresh_name)

KB = "redress.circuit:CircuitBreaker"
ENTRY = {
    ("sync", "call"): "redress.policy.policy:Policy.call",
    ("sync", "execute"): "redress.policy.policy:Policy.execute",
    ("async", "call"): "redress.policy.async_policy:AsyncPolicy.call",
    ("async", "execute"): "redress.policy.async_policy:AsyncPolicy.execute",
}
RETRY_KEYS = {
    "sync": ("redress.policy.retry_sync:Retry", "redress.policy.retry_sync:Retry.call", "redress.policy.retry_sync:Retry.execute"),
    "async": ("redress.policy.retry_async:AsyncRetry", "redress.policy.retry_async:AsyncRetry.call",
              "redress.policy.retry_async:AsyncRetry.execute"),
}


class PW:
    """policy world"""

    def __init__(self, it, flavour, with_retry, with_breaker):
        tree = it.tree
        self.it = it
        self.flavour = flavour
        self.is_async = flavour == "async"
        self.ec = tree.cls("redress.errors:ErrorClass")
        self.sr = tree.cls("redress.errors:StopReason")
        self.cs = tree.cls("redress.circuit:CircuitState")
        self.records = []
        self.admitted = False
        self.allow_calls = 0
        self.func_calls = 0
        self.retry_calls = 0
        self.events = []
        self.events_at = []  # number of breaker-produced events when each one was emitted
        self.produced = []  # (event, state) for every transition / rejection the breaker announced, in order
        self.hook_died = False
        self.final = None
        self.classifier_result = None
        self.bstate = it.fresh_enum(self.cs, "bstate")
        self.probe = z3.Bool(fresh_name("probe"))
        it.path.assume(z3.Implies(self.probe, self.bstate.t == it.enum_const(self.cs, "HALF_OPEN")))
        self.breaker = Obj(tree.cls(KB), {"_abstract": True}) if with_breaker else None
        rcls = tree.cls(RETRY_KEYS[flavour][0])
        self.retry = Obj(rcls, {"classifier": EnvFn("classifier")}) if with_retry else None
        pcls = tree.cls(ENTRY[(flavour, "call")].rsplit(".", 1)[0])
        self.policy = Obj(pcls, {"retry": self.retry, "circuit_breaker": self.breaker})
        self.func = EnvFn("func")
        self.kwargs = dict(
            on_metric=fopt("on_metric", EnvFn("on_metric")), on_log=fopt("on_log", EnvFn("on_log")),
            operation=fopt("operation", fstr("operation")), abort_if=fopt("abort_if", EnvFn("abort_if")),
            sleep=fopt("sleep", EnvFn("sleep_fn")), before_sleep=fopt("before_sleep", EnvFn("before_sleep")),
            sleeper=fopt("sleeper", EnvFn("sleeper")),
            on_attempt_start=fopt("on_attempt_start", EnvFn("hook")), on_attempt_end=fopt("on_attempt_end", EnvFn("hook")))
        it.path.ghost["PW"] = self

    def S(self, name):
        return self.it.enum_const(self.cs, name)

    def interleave(self):
        """other calls / threads use the same breaker while this call's operation runs: its state is arbitrary afterwards,
        except that a probe slot taken by THIS call stays taken (C07: nothing but this call's own record may release it)"""
        if self.breaker is None or getattr(self, "twin", False):
            return
        it = self.it
        self.interleaved = True
        if getattr(self, "took_probe", False):
            return
        self.bstate = it.fresh_enum(self.cs, "bstate_later")
        self.probe = z3.Bool(fresh_name("probe_later"))
        it.path.assume(z3.Implies(self.probe, self.bstate.t == self.S("HALF_OPEN")))


def PWof(it) -> PW:
    return it.path.ghost["PW"]


def any_exc(it, origin):
    e = it.fresh_exc(origin, origin=origin)
    e.fields["last_class"] = fopt("nested_last_class", it.fresh_enum(PWof(it).ec, "nested_last_class"))
    return e


def install(it):
    stdlib.install_clock(it)

    # ---------------- breaker by contract (abstraction of the triples proved in C06/C07)
    def allow(it_, fv, args, kwargs, node):
        w = PWof(it_)
        w.allow_calls += 1
        p = it_.path
        dec = it_.tree.cls("redress.circuit:_BreakerDecision")
        closed, opn = w.bstate.t == w.S("CLOSED"), w.bstate.t == w.S("OPEN")
        if p.branch(closed):
            allowed, event = True, None
        elif p.branch(opn):
            if p.choose(2, "recovery-timeout-elapsed") == 1:
                w.bstate = it_.enum_member(w.cs, "HALF_OPEN")
                w.probe = z3.BoolVal(True)
                allowed, event = True, "circuit_half_open"
            else:
                allowed, event = False, "circuit_rejected"
        else:
            if p.branch(w.probe):
                allowed, event = False, "circuit_rejected"
            else:
                w.probe = z3.BoolVal(True)
                allowed, event = True, None
        w.admitted = allowed
        w.took_probe = allowed and z3.is_true(z3.simplify(w.bstate.t == w.S("HALF_OPEN")))
        if event is not None:
            w.produced.append((event, w.bstate))
        return Obj(dec, {"allowed": allowed, "state": w.bstate, "event": event}, frozen=True)

    def record(kind):
        def h(it_, fv, args, kwargs, node):
            w = PWof(it_)
            p = it_.path
            klass = args[1] if len(args) > 1 else None
            w.records.append((kind, klass))
            w.before_record = (w.bstate, w.probe)
            half = w.bstate.t == w.S("HALF_OPEN")
            if kind == "cancel":
                if p.branch(half):
                    w.probe = z3.BoolVal(False)
                return None
            if p.branch(half):
                w.probe = z3.BoolVal(False)
                if kind == "success":
                    w.bstate = it_.enum_member(w.cs, "CLOSED")
                    w.produced.append(("circuit_closed", w.bstate))
                    return "circuit_closed"
                w.bstate = it_.enum_member(w.cs, "OPEN")
                w.produced.append(("circuit_opened", w.bstate))
                return "circuit_opened"
            if kind == "failure" and p.branch(w.bstate.t == w.S("CLOSED")):
                if p.choose(2, "threshold-reached") == 1:
                    w.bstate = it_.enum_member(w.cs, "OPEN")
                    w.produced.append(("circuit_opened", w.bstate))
                    return "circuit_opened"
            return None

        return h

    it.contracts[KB + ".allow"] = allow
    it.contracts[KB + ".record_success"] = record("success")
    it.contracts[KB + ".record_failure"] = record("failure")
    it.contracts[KB + ".record_cancel"] = record("cancel")
    it.contracts[KB + ".state"] = lambda it_, fv, a, k, n: PWof(it_).bstate

    # ---------------- breaker events: contract of _emit_breaker_event (body proved in task policy._emit_breaker_event)
    def emit_breaker_event(it_, fv, args, kwargs, node):
        w = PWof(it_)
        w.events.append((kwargs["event"], kwargs["state"], kwargs["klass"]))
        w.events_at.append(len(w.produced))
        any_hook = z3.Or(z3.Not(T(it_.is_none(kwargs["on_metric"]))), z3.Not(T(it_.is_none(kwargs["on_log"]))))
        if it_.path.branch(any_hook):
            if it_.path.choose(2, "breaker-event-hook-baseexception") == 1:
                w.hook_died = True
                e = any_exc(it_, "hook")
                it_.path.assume(z3.Not(it_.lattice.isinstance_cond(e.cls_t, Exception)))
                raise PyRaise(e)
        return None

    it.contracts["redress.policy.policy_helpers:_emit_breaker_event"] = emit_breaker_event

    # ---------------- retry component by contract
    def retry_call(is_async):
        def h(it_, fv, args, kwargs, node):
            w = PWof(it_)
            w.retry_calls += 1
            w.retry_args = (args, kwargs)
            w.interleave()
            c = it_.path.choose(4, "retry.call")
            if c == 0:
                v = fref("value")
                w.final = ("value", v)
                return ("coro_done", v) if is_async else v
            if c == 1:
                e = Obj(it_.tree.cls("redress.errors:AbortRetryError"), {"args": (), "__traceback__": None, "__cause__": None},
                        cls_t=it_.lattice.const["AbortRetryError"])
                e.tag = "library-abort"
                w.final = ("abort", e)
                raise PyRaise(e)
            if c == 2:
                lc = fopt("ree_last_class", it_.fresh_enum(w.ec, "ree_last_class"))
                e = Obj(it_.tree.cls("redress.errors:RetryExhaustedError"),
                        {"stop_reason": it_.fresh_enum(w.sr, "ree_reason"), "attempts": fint("attempts"), "last_class": lc,
                         "last_exception": None, "last_result": None, "next_sleep_s": None, "args": (), "__traceback__": None,
                         "__cause__": None}, cls_t=it_.lattice.const["RetryExhaustedError"], frozen=True)
                e.tag = "library-exhausted"
                w.final = ("exhausted", e)
                raise PyRaise(e)
            e = any_exc(it_, "escaped")
            w.final = ("exception", e)
            raise PyRaise(e)

        return h

    def retry_execute(is_async):
        def h(it_, fv, args, kwargs, node):
            w = PWof(it_)
            w.retry_calls += 1
            w.retry_args = (args, kwargs)
            w.interleave()
            if it_.path.choose(2, "retry.execute") == 1:
                e = any_exc(it_, "escaped")
                w.final = ("exception", e)
                raise PyRaise(e)
            ro = it_.tree.cls("redress.policy.types:RetryOutcome")
            ok = fbool("ok")
            o = Obj(ro, {"ok": ok, "value": fref("value"), "stop_reason": fopt("stop_reason", it_.fresh_enum(w.sr, "stop_reason")),
                         "attempts": fint("attempts"), "last_class": fopt("last_class", it_.fresh_enum(w.ec, "last_class")),
                         "last_exception": fopt("last_exception", any_exc(it_, "final")), "last_result": None, "cause": None,
                         "elapsed_s": freal("elapsed"),
                         "next_sleep_s": None, "timeline": None}, frozen=True, ident=z3.Int(fresh_name("outcome_id")))
            # C11 on the runner: ok => no stop reason
            it_.path.assume(z3.Implies(ok.t, o.fields["stop_reason"].none))
            w.final = ("outcome", o)
            return ("coro_done", o) if is_async else o

        return h

    for fl, (ck, callk, execk) in RETRY_KEYS.items():
        it.contracts[callk] = retry_call(fl == "async")
        it.contracts[execk] = retry_execute(fl == "async")

    # ---------------- environment
    def m_func(it_, fn, args, kwargs, node):
        w = PWof(it_)
        w.func_calls += 1
        w.interleave()

        def outcome(node_=None):
            if it_.path.choose(2, "func") == 0:
                v = fref("value")
                w.final = ("value", v)
                return v
            e = any_exc(it_, "func")
            w.final = ("exception", e)
            raise PyRaise(e)

        return ("awaitable", outcome) if w.is_async else outcome()

    def m_hook(it_, fn, args, kwargs, node):
        if it_.path.choose(2, "attempt-hook") == 1:
            raise PyRaise(any_exc(it_, "attempt-hook"))
        return None

    def m_classifier(it_, fn, args, kwargs, node):
        w = PWof(it_)
        c = it_.path.choose(3, "classifier")
        if c == 2:
            raise PyRaise(any_exc(it_, "classifier"))
        k = it_.fresh_enum(w.ec, "klass")
        w.classifier_result = k
        if c == 0:
            return k
        return Obj(it_.tree.cls("redress.classify:Classification"), {"klass": k, "retry_after_s": None, "details": fref("d")}, frozen=True)

    def m_abort_if(it_, fn, args, kwargs, node):
        w = PWof(it_)
        b = fbool("abort")
        w.abort_answer = b
        return b

    it.env_models.update({"func": m_func, "hook": m_hook, "classifier": m_classifier, "abort_if": m_abort_if})

    # default_classifier: total, returns some ErrorClass (C19)
    def default_classifier(it_, fv, args, kwargs, node):
        w = PWof(it_)
        k = it_.fresh_enum(w.ec, "default_klass")
        w.classifier_result = k
        return k

    it.contracts["redress.classify:default_classifier"] = default_classifier
    stdlib.trusted("Retry.call / Retry.execute (policy layer)", "used through the delivery contracts proved on the runners (C04, C11, C13): "
                                                                 "value | AbortRetryError | RetryExhaustedError | any other exception; outcome | any exception")
    stdlib.trusted("CircuitBreaker (policy layer)", "used through the (state, probe) abstraction of the triples proved in C06/C07")


def t_entry(it, flavour, kind, with_retry):
    install(it)
    key = ENTRY[(flavour, kind)]

    def h(it):
        p = it.path
        with_breaker = bool(p.choose(2, "breaker-configured"))
        w = PW(it, flavour, with_retry, with_breaker)
        kwargs = dict(w.kwargs)
        if kind == "execute":
            kwargs["capture_timeline"] = fopt("capture_timeline", fbool("capture_timeline"))
        probe0, state0 = w.probe, w.bstate
        r = call_catch(it, BoundV(w.policy, FuncV(it.tree.func(key))), [w.func], kwargs)
        if r[0] == "ok" and isinstance(r[1], tuple) and r[1] and r[1][0] == "coro_done":
            r = ("ok", r[1][1])
        recs = w.records
        n = len(recs)
        lat = it.lattice
        if with_breaker and not w.hook_died:
            # C14: every transition / rejection the breaker announces is reported, once, in order, before the next one is produced,
            # with the state the breaker was in when it announced it
            same_names = [str(ev[0]) if isinstance(ev[0], str) else ev[0] for ev in w.events] == [e for e, _ in w.produced]
            p.oblige(f"{key}/C14/every-breaker-event-is-reported-once-in-order", same_names and w.events_at == list(range(1, len(w.produced) + 1)),
                     prop="C14", detail={"reported": [str(ev[0]) for ev in w.events], "announced": [e for e, _ in w.produced]})
            if same_names:
                p.oblige(f"{key}/C14/breaker-event-carries-the-state-at-announcement",
                         z3.And([T(it.eq(ev[1], st)) for ev, (_, st) in zip(w.events, w.produced)] + [z3.BoolVal(True)]), prop="C14")
        COE = it.tree.cls("redress.errors:CircuitOpenError")
        # ---------------- not admitted
        preflight_abort = (not with_retry) and getattr(w, "abort_answer", None) is not None and w.allow_calls == 0 and w.func_calls == 0
        if with_breaker and not w.admitted:
            if preflight_abort:
                # aborted before the breaker was asked: the call was never admitted
                p.oblige(f"{key}/C09/unadmitted-call-reports-nothing", n == 0, prop="C09",
                         detail="pre-flight abort (no retry) records cancel without admission")
                p.oblige(f"{key}/C07/unadmitted-call-leaves-the-probe-slot-alone", z3.simplify(w.probe == probe0), prop="C07",
                         detail="pre-flight abort (no retry) frees a probe slot it never took")
                p.cover(f"{key}/preflight-abort")
                return
            p.oblige(f"{key}/C07/rejected-without-invoking-the-operation", w.func_calls == 0 and w.retry_calls == 0, prop="C07")
            p.oblige(f"{key}/C07/rejection-not-reported-to-the-breaker", n == 0, prop="C07")
            p.oblige(f"{key}/C07/rejection-asked-the-breaker-once", w.allow_calls == 1, prop="C07")
            if kind == "call":
                e = r[1] if r[0] == "exc" else None
                ok_exc = e is not None and (e.tag == "hook" or (e.cls is not None and e.cls.name == "CircuitOpenError"))
                p.oblige(f"{key}/C07/rejected-with-CircuitOpenError", ok_exc, prop="C07")
            else:
                if r[0] == "ok":
                    f = r[1].fields
                    p.oblige(f"{key}/C07/rejected-outcome-not-ok-zero-attempts", f["ok"] is False and f["attempts"] == 0, prop="C07")
                else:
                    p.oblige(f"{key}/C07/rejected-outcome-or-hook-baseexception", r[1].tag == "hook", prop="C07")
            p.oblige(f"{key}/C14/rejection-event", [ev[0] for ev in w.events] == ["circuit_rejected"], prop="C14")
            p.cover(f"{key}/rejected")
            return
        if not with_breaker:
            p.oblige(f"{key}/C09/no-breaker-no-records", n == 0, prop="C09")
            p.cover(f"{key}/no-breaker")
            return
        # ---------------- admitted
        p.oblige(f"{key}/C08/admitted-call-settles-the-breaker", n >= 1, prop="C08",
                 detail={"exit": r[0], "exc": repr(r[1]) if r[0] == "exc" else None, "final": w.final and w.final[0]})
        p.oblige(f"{key}/C08/no-phantom-probe-left", z3.Implies(w.bstate.t == w.S("HALF_OPEN"), z3.Not(w.probe)) if getattr(w, "took_probe", False)
                 else True, prop="C08")
        p.oblige(f"{key}/C09/exactly-one-record-per-admitted-call", n == 1, prop="C09", detail=[k for k, _ in recs])
        p.oblige(f"{key}/C07/breaker-asked-once", w.allow_calls == 1, prop="C07")
        if n >= 1 and getattr(w, "interleaved", False) and not getattr(w, "took_probe", False) and hasattr(w, "before_record"):
            # schedules: this call was admitted without taking the probe slot; whatever happened to the breaker while its
            # operation ran, its own report must not be taken for the probe's
            st_b, pr_b = w.before_record
            half_b = st_b.t == w.S("HALF_OPEN")
            p.oblige(f"{key}/C07/schedules/report-of-a-non-probe-call-does-not-release-the-probe-slot",
                     z3.Implies(z3.And(half_b, pr_b), w.probe), prop="C07", detail={"record": recs[0][0]})
            p.oblige(f"{key}/C07/schedules/report-of-a-non-probe-call-does-not-close-or-reopen-a-half-open-circuit",
                     z3.Implies(z3.And(half_b, pr_b), w.bstate.t == w.S("HALF_OPEN")), prop="C07", detail={"record": recs[0][0]})
        if n != 1:
            return
        rk, rclass = recs[0]
        if isinstance(rclass, SOpt):
            rclass = rclass.val
        fin = w.final
        UNK = it.enum_const(w.ec, "UNKNOWN")

        def cls_or_unknown(optv):
            none, val = ops.opt_parts(optv)
            return z3.If(none, UNK, val.t) if val is not None else UNK

        if r[0] == "ok":
            if kind == "call":
                p.oblige(f"{key}/C09/returned-value=>success", rk == "success", prop="C09")
                p.oblige(f"{key}/C04/returns-the-value", fin is not None and fin[0] == "value" and r[1] is fin[1], prop="C04")
                p.cover(f"{key}/admitted/returns")
            else:
                o = r[1]
                f = o.fields
                if fin is not None and fin[0] == "outcome":
                    p.oblige(f"{key}/C11/outcome-passed-through", o is fin[1], prop="C11")
                    ok = T(it.truth(f["ok"]))
                    sn, sv_ = ops.opt_parts(f["stop_reason"])
                    aborted = z3.And(z3.Not(sn), sv_.t == it.enum_const(w.sr, "ABORTED"))
                    exp = ("success" if z3.is_true(z3.simplify(ok)) else None)
                    okd = p.known.get(z3.simplify(ok).get_id())
                    p.oblige(f"{key}/C09/ok=>success", z3.Implies(ok, rk == "success"), prop="C09")
                    p.oblige(f"{key}/C09/aborted=>cancel", z3.Implies(z3.And(z3.Not(ok), aborted), rk == "cancel"), prop="C09")
                    le_none, le = ops.opt_parts(f["last_exception"])
                    nested_open = z3.And(z3.Not(le_none), lat.isinstance_cond(le.cls_t, COE)) if le is not None else z3.BoolVal(False)
                    p.oblige(f"{key}/C09/nested-breaker-rejection-is-not-counted-as-failure",
                             z3.Implies(z3.And(z3.Not(ok), z3.Not(aborted), nested_open), rk == "cancel"), prop="C09")
                    p.oblige(f"{key}/C09/stopped=>failure-with-final-class",
                             z3.Implies(z3.And(z3.Not(ok), z3.Not(aborted), z3.Not(nested_open)),
                                        z3.And(rk == "failure", rclass.t == cls_or_unknown(f["last_class"]) if rclass is not None else False)),
                             prop="C09")
                else:
                    # no retry component: single attempt
                    okc = f["ok"]
                    if okc is True:
                        p.oblige(f"{key}/C09/ok=>success", rk == "success", prop="C09")
                    elif f["stop_reason"] is not None and it.enum_concrete_name(f["stop_reason"]) == "ABORTED":
                        p.oblige(f"{key}/C09/aborted=>cancel", rk == "cancel", prop="C09")
                    else:
                        p.oblige(f"{key}/C09/failed=>failure-with-classified-class",
                                 (rclass.t == w.classifier_result.t) if (rk == "failure" and w.classifier_result is not None) else False,
                                 prop="C09")
                p.cover(f"{key}/admitted/outcome")
            return
        e = r[1]
        tag = e.tag
        if tag == "library-abort":
            p.oblige(f"{key}/C09/aborted=>cancel", rk == "cancel", prop="C09")
        elif tag == "library-exhausted":
            p.oblige(f"{key}/C09/exhausted=>failure-with-last_class",
                     (rclass.t == cls_or_unknown(e.fields["last_class"])) if (rk == "failure" and rclass is not None) else False, prop="C09")
        elif tag in ("func", "escaped"):
            import asyncio as _a
            cancelish = z3.Or(lat.isinstance_cond(e.cls_t, KeyboardInterrupt), lat.isinstance_cond(e.cls_t, SystemExit),
                              lat.isinstance_cond(e.cls_t, _a.CancelledError))
            is_exc = lat.isinstance_cond(e.cls_t, Exception)
            is_abort = lat.isinstance_cond(e.cls_t, it.tree.cls("redress.errors:AbortRetryError"))
            is_ree = lat.isinstance_cond(e.cls_t, it.tree.cls("redress.errors:RetryExhaustedError"))
            is_coe = lat.isinstance_cond(e.cls_t, COE)
            p.oblige(f"{key}/C09/cancellation-type=>cancel", z3.Implies(z3.Or(cancelish, is_abort), rk == "cancel"), prop="C09")
            plain = z3.And(is_exc, z3.Not(is_abort), z3.Not(is_ree), z3.Not(is_coe))
            if kind == "call":
                # the final failure's class as given by the classifier (when it answered)
                if w.classifier_result is not None and rk == "failure":
                    p.oblige(f"{key}/C09/failure-class-is-the-classifiers", rclass.t == w.classifier_result.t, prop="C09")
                p.oblige(f"{key}/C09/operation-exception=>failure", z3.Implies(plain, rk == "failure") if w.classifier_result is not None else True, prop="C09")
                p.oblige(f"{key}/C04/raises-the-same-exception", fin is not None and e is fin[1], prop="C04")
        p.cover(f"{key}/admitted/raises[{tag}]")

    return h


def t_emit_breaker_event(it):
    """C14/C15: breaker events carry attempt 0, sleep 0.0, the state tag; hooks' Exceptions are confined, both hooks fed."""
    stdlib.install_clock(it)
    key = "redress.policy.policy_helpers:_emit_breaker_event"
    calls = []

    def hook(tag):
        def m(it_, fn, args, kwargs, node):
            it_.path.ghost.setdefault("calls", []).append((tag, args))
            if it_.path.choose(2, tag) == 1:
                e = it_.fresh_exc(tag, origin=tag)
                raise PyRaise(e)
            return None

        return m

    it.env_models["on_metric"] = hook("on_metric")
    it.env_models["on_log"] = hook("on_log")

    def h(it):
        p = it.path
        cs = it.tree.cls("redress.circuit:CircuitState")
        ecls = it.tree.cls("redress.errors:ErrorClass")
        state = it.fresh_enum(cs, "state")
        klass = fopt("klass", it.fresh_enum(ecls, "klass"))
        om, ol = fopt("on_metric", EnvFn("on_metric")), fopt("on_log", EnvFn("on_log"))
        op = fopt("operation", fstr("operation"))
        event = fstr("event")
        r = call_catch(it, FuncV(it.tree.func(key)), [], {"event": event, "state": state, "klass": klass, "on_metric": om,
                                                         "on_log": ol, "operation": op})
        calls = p.ghost.get("calls", [])
        if r[0] == "exc":
            e = r[1]
            p.oblige(f"{key}/C15/ordinary-hook-exceptions-are-confined", z3.Not(it.lattice.isinstance_cond(e.cls_t, Exception)), prop="C15")
            p.cover(f"{key}/raises")
            return
        nm = sum(1 for c in calls if c[0] == "on_metric")
        nl = sum(1 for c in calls if c[0] == "on_log")
        p.oblige(f"{key}/C15/on_metric-once-iff-configured", z3.If(om.none, nm == 0, nm == 1), prop="C15")
        p.oblige(f"{key}/C15/on_log-once-iff-configured", z3.If(ol.none, nl == 0, nl == 1), prop="C15")
        for tag, args in calls:
            if tag == "on_metric":
                ev, at, sl, tags = args
                p.oblige(f"{key}/C14/attempt-0-sleep-0", at == 0 and sl == 0.0, prop="C14")
                p.oblige(f"{key}/C14/event-name", sterm(ev) == event.t, prop="C14")
                p.oblige(f"{key}/C14/state-tag", "state" in tags and sterm(tags["state"]) == sterm(it.getattr_value(state, "value")), prop="C14")
            else:
                ev, fields = args
                p.oblige(f"{key}/C14/log-attempt-0-sleep-0", fields.get("attempt") == 0 and fields.get("sleep_s") == 0.0, prop="C14")
                p.oblige(f"{key}/C14/log-state-tag", "state" in fields and sterm(fields["state"]) == sterm(it.getattr_value(state, "value")), prop="C14")
        p.cover(f"{key}/normal")

    return h


TASKS = []
for fl in ("sync", "async"):
    for kd in ("call", "execute"):
        for wr in (True, False):
            t = Task(f"policy.{fl}.{kd}[{'retry' if wr else 'no-retry'}]",
                     (lambda fl, kd, wr: (lambda it: t_entry(it, fl, kd, wr)))(fl, kd, wr),
                     ["C07", "C08", "C09", "C04", "C11", "C14"], [ENTRY[(fl, kd)]])
            t.weight = 4
            t.assumptions = ["policy layer: the operation, attempt hooks, classifier and observability hooks may raise any exception class at any "
                             "invocation; async cancellation is the awaited operation raising CancelledError at its await point"]
            TASKS.append(t)
TASKS.append(Task("policy._emit_breaker_event", t_emit_breaker_event, ["C14", "C15"], ["redress.policy.policy_helpers:_emit_breaker_event"]))
