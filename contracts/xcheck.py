"""Encoder cross-check (DESIGN 2.6 guard 4): the executor in concrete mode vs CPython on the real functions.

Seeded random cases are executed (a) natively on the real code under /venv/bin/python (replay/xcheck_native.py) and
(b) through the symbolic executor with every leaf concrete; results, raised exception classes and the resulting object
state must agree.  A disagreement means the executor's semantics of the Python subset is wrong: the task fails an
obligation named xcheck/<component>/..., which every property's check includes (nothing is believed then)."""
from __future__ import annotations

import json
import math
import os
import random
import re
import subprocess
from fractions import Fraction
from pathlib import Path

import z3

from pyvc import ops
from pyvc.harness import Task, call_catch
from pyvc.interp_expr import PyRaise
from pyvc.source import SRC_ROOT
from pyvc.values import (BoundV, ClassV, DequeV, EnumMap, EnumSet, EnumVal, EnvFn, FuncV, Obj, SFloat, SOpt, Sym)

ROOT = Path(__file__).resolve().parent.parent
CLASSES = ["AUTH", "PERMISSION", "PERMANENT", "CONCURRENCY", "RATE_LIMIT", "SERVER_ERROR", "TRANSIENT", "UNKNOWN"]
ALL_PROPS = [f"C{n:02d}" for n in range(1, 21)]


def enc(x):
    if isinstance(x, float):
        if math.isnan(x):
            return "nan"
        if math.isinf(x):
            return "inf" if x > 0 else "-inf"
    return x


def conc(v):
    """concrete python value of an executor value"""
    if isinstance(v, SOpt):
        n = z3.simplify(v.none)
        return None if z3.is_true(n) else conc(v.val)
    if isinstance(v, Sym):
        t = z3.simplify(v.t)
        if v.ty == "bool":
            return z3.is_true(t)
        if v.ty == "int":
            return t.as_long()
        if v.ty == "real":
            return float(Fraction(t.numerator_as_long(), t.denominator_as_long())) if z3.is_rational_value(t) else ("?", str(t))
        if v.ty == "str":
            return t.as_string()
    if isinstance(v, SFloat):
        k = z3.simplify(v.k).as_long()
        if k == 1:
            return float("inf")
        if k == 2:
            return float("-inf")
        if k == 3:
            return float("nan")
        t = z3.simplify(v.v)
        return float(Fraction(t.numerator_as_long(), t.denominator_as_long()))
    if isinstance(v, EnumVal):
        return None  # resolved by caller
    if isinstance(v, z3.ExprRef):
        t = z3.simplify(v)
        if z3.is_rational_value(t):
            return float(Fraction(t.numerator_as_long(), t.denominator_as_long()))
        if z3.is_int_value(t):
            return t.as_long()
        if z3.is_true(t) or z3.is_false(t):
            return z3.is_true(t)
    return v


def deque_list(dq: DequeV):
    lo, hi = z3.simplify(dq.lo).as_long(), z3.simplify(dq.hi).as_long()
    return [conc(z3.Select(dq.arr, i)) for i in range(lo, hi)]


def same(a, b):
    if isinstance(a, float) and isinstance(b, float):
        if math.isnan(a) and math.isnan(b):
            return True
        return a == b or (b != 0 and abs(a - b) <= 4e-16 * abs(b)) or abs(a - b) < 1e-300
    if isinstance(a, (list, tuple)) and isinstance(b, (list, tuple)):
        return len(a) == len(b) and all(same(x, y) for x, y in zip(a, b))
    if isinstance(a, dict) and isinstance(b, dict):
        return set(a) == set(b) and all(same(a[k], b[k]) for k in a)
    if isinstance(a, (int, float)) and isinstance(b, (int, float)) and not isinstance(a, bool) and not isinstance(b, bool):
        return float(a) == float(b)
    return a == b


def dec(x):
    return {"nan": float("nan"), "inf": float("inf"), "-inf": float("-inf"), "hugeint": 10 ** 5000,
            "-hugeint": -(10 ** 5000)}.get(x, x) if isinstance(x, str) else x


# ---------------------------------------------------------------------------------------------
def gen_cases(seed, n):
    rnd = random.Random(seed)
    cases = []
    times = lambda k: sorted(round(rnd.choice([0.0, 0.5, 1.0, 1.0, 2.0, 2.5]) + rnd.random() * rnd.choice([0, 0, 1, 5]), 3) for _ in range(k))
    for _ in range(n):
        k = rnd.randint(1, 8)
        ts = times(k)
        cases.append({"component": "budget", "max_retries": rnd.choice([-1, 0, 1, 2, 3]), "window_s": rnd.choice([0.0, 0.5, 1.0, 2.0]),
                      "ops": [dict({"op": rnd.choice(["consume", "consume", "remaining"]), "t": t},
                                   **({"cost": rnd.choice([0, 1, 1, 2, 3])} if rnd.random() < 0.5 else {})) for t in ts]})
    for _ in range(n):
        k = rnd.randint(1, 10)
        ts = times(k)
        ct = None if rnd.random() < 0.5 else {c: rnd.choice([0, 1, 2]) for c in rnd.sample(CLASSES, rnd.randint(0, 2))}
        cases.append({"component": "breaker", "failure_threshold": rnd.choice([0, 1, 2, 3]), "window_s": rnd.choice([0.0, 1.0, 2.0]),
                      "recovery_timeout_s": rnd.choice([0.0, 0.5, 1.0, 3.0]),
                      "trip_on": None if rnd.random() < 0.5 else rnd.sample(CLASSES, rnd.randint(0, 3)), "class_thresholds": ct,
                      "ops": [dict({"op": rnd.choice(["allow", "record_success", "record_failure", "record_failure", "record_cancel"]), "t": t},
                                   klass=rnd.choice(CLASSES)) for t in ts]})
    for _ in range(n):
        base = rnd.choice([0.0, 0.25, 1.0, 1e-300, 5.0])
        cases.append({"component": "strategy", "which": rnd.choice(["decorrelated_jitter", "equal_jitter", "token_backoff"]),
                      "base_s": base, "max_s": max(base, rnd.choice([0.0, 1.0, 30.0, 1e308])),
                      "attempt": rnd.choice([1, 2, 3, 10, 100, 1023, 1024, 1751, 5000]),
                      "prev": rnd.choice([None, 0.0, 0.5, 7.0, "inf"]), "r": rnd.choice([0.0, 0.25, 0.5, 0.999])})
    vals = [None, True, False, "hugeint", "-hugeint", 0, 1, 401, 403, 404, 408, 409, 422, 429, 500, 599, 600, 99, 10 ** 30, 401.0, "nan", "429", "", "40001", "08S01", "28000", "HYT00", "42P01"]
    for _ in range(2 * n):
        attrs = {a: rnd.choice(vals) for a in rnd.sample(["status", "status_code", "code", "sqlstate"], rnd.randint(0, 3))}
        base_ = rnd.choice(["Exception", "TimeoutError", "ValueError", "PermanentError", "RateLimitError", "ConcurrencyError",
                            "ServerError", "ConnectionError"])
        # OSError subclasses rewrite .args when constructed with 2+ arguments (errno/strerror): keep those to <= 1 argument
        max_args = 1 if base_ in ("TimeoutError", "ConnectionError") else 3
        cases.append({"component": "classifier", "which": rnd.choice(["default", "strict", "http", "sqlstate", "pyodbc"]),
                      "base": base_,
                      "name": rnd.choice(["Boom", "AuthFailed", "ForbiddenThing", "ReadTimeout", "MyConnectionLost", "UnauthorizedX", "PermissionDenied"]),
                      "args": [rnd.choice([0, 503, 404, 600, "x", "[40001] deadlock", "code 08S01 here", True, None, 2.5, "[HYT00]"])
                               for _ in range(rnd.randint(0, max_args))],
                      "attrs": attrs})
    return cases


def native(cases):
    env = dict(os.environ)
    env["PYTHONPATH"] = os.environ.get("XCHECK_NATIVE_SRC", str(SRC_ROOT))  # override only for testing the guard itself
    p = subprocess.run(["/venv/bin/python", str(ROOT / "replay" / "xcheck_native.py")], input=json.dumps({"cases": cases}),
                       capture_output=True, text=True, env=env, timeout=600)
    return json.loads(p.stdout.strip().splitlines()[-1])["results"]


# ---------------------------------------------------------------------------------------------
def exec_budget(it, c):
    clock = {"t": 0.0}
    it.ext_models["time.monotonic"] = lambda it_, a, k, n: clock["t"]
    ci = it.tree.cls("redress.budget:Budget")
    r = call_catch(it, ClassV(ci), [], {"max_retries": c["max_retries"], "window_s": c["window_s"]})
    if r[0] == "exc":
        return ["ValueError"]
    b = r[1]
    out = []
    for op in c["ops"]:
        clock["t"] = op["t"]
        m = BoundV(b, FuncV(it.tree.func(f"redress.budget:Budget.{op['op']}")))
        rr = call_catch(it, m, [op["cost"]] if "cost" in op and op["op"] == "consume" else [])
        val = "ValueError" if rr[0] == "exc" else conc(rr[1])
        out.append([val, deque_list(b.fields["_events"])])
    return out


def exec_breaker(it, c):
    ec = it.tree.cls("redress.errors:ErrorClass")
    clock = {"t": 0.0}
    it.env_models["xclock"] = lambda it_, fn, a, k, n: clock["t"]
    trip = None if c["trip_on"] is None else EnumSet(ec, {k: (k in c["trip_on"]) for k in CLASSES})
    ct = None if c["class_thresholds"] is None else EnumMap(ec, dict(c["class_thresholds"]))
    r = call_catch(it, ClassV(it.tree.cls("redress.circuit:CircuitBreaker")), [],
                   {"failure_threshold": c["failure_threshold"], "window_s": c["window_s"], "recovery_timeout_s": c["recovery_timeout_s"],
                    "trip_on": trip, "class_thresholds": ct, "clock": EnvFn("xclock")})
    if r[0] == "exc":
        return ["ValueError"]
    b = r[1]
    out = []
    for op in c["ops"]:
        clock["t"] = op["t"]
        m = BoundV(b, FuncV(it.tree.func(f"redress.circuit:CircuitBreaker.{op['op']}")))
        args = [it.enum_member(ec, op["klass"])] if op["op"] == "record_failure" else []
        rr = it.call_value(m, args, {})
        if op["op"] == "allow":
            val = [conc(rr.fields["allowed"]), it.enum_concrete_name(rr.fields["state"]), rr.fields["event"]]
        else:
            val = rr
        f = b.fields
        cf = f["_class_failures"]
        buckets = {}
        if isinstance(cf, dict):
            for k, v in cf.items():
                buckets[k[2]] = deque_list(v)
        out.append([val, it.enum_concrete_name(f["_state"]), conc(f["_opened_at"]), conc(f["_probe_in_flight"]), deque_list(f["_failures"]),
                    dict(sorted(buckets.items()))])
    return out


def exec_strategy(it, c):
    def uniform(it_, args, kwargs, node):
        a, b = args
        return it_.binop("+", a, it_.binop("*", it_.binop("-", b, a), c["r"]))

    it.ext_models["random.uniform"] = uniform
    r = call_catch(it, FuncV(it.tree.func(f"redress.strategies:{c['which']}")), [], {"base_s": dec(c["base_s"]), "max_s": dec(c["max_s"])})
    if r[0] == "exc":
        return [exc_name(it, r[1])]
    klass = it.enum_member(it.tree.cls("redress.errors:ErrorClass"), "TRANSIENT")
    rr = call_catch(it, r[1], [c["attempt"], klass, dec(c["prev"])])
    if rr[0] == "exc":
        return [exc_name(it, rr[1])]
    return [enc(conc(rr[1]))]


def exc_name(it, e):
    for leaf, const in it.lattice.const.items():
        if z3.is_true(z3.simplify(e.cls_t == const)):
            return leaf
    return "?"


def exec_classifier(it, c):
    from pyvc.excs import EXT_CLASS_NAMES
    key = {"default": "redress.classify:default_classifier", "strict": "redress.classify:strict_classifier",
           "http": "redress.extras.http:http_classifier", "sqlstate": "redress.extras.sqlstate:sqlstate_classifier",
           "pyodbc": "redress.extras.pyodbc:pyodbc_classifier"}[c["which"]]
    base = c["base"]
    if base in ("PermanentError", "RateLimitError", "ConcurrencyError", "ServerError"):
        leaf = it.lattice.const[base]
    elif base == "ConnectionError":
        leaf = it.lattice.const["OSError*"]
    elif base == "Exception":
        leaf = it.lattice.const["Exception*"]
    else:
        leaf = it.lattice.const[base]
    e = Obj(None, {"args": tuple(dec(a) for a in c["args"]), "__traceback__": None}, cls_t=leaf)
    for k, v in c["attrs"].items():
        e.fields[k] = dec(v)
    it.path.ghost["typename"] = {id(e): c["name"]}

    def compile_(it_, args, kwargs, node):
        rx = re.compile(args[0])

        def search(it__, fn, a, k, n):
            m = rx.search(a[0])
            if m is None:
                return None
            return Obj(None, {"group": EnvFn("xgroup", attrs={"m": m})})

        it_.env_models["xsearch"] = search
        it_.env_models["xgroup"] = lambda it__, fn, a, k, n: fn.attrs["m"].group(a[0])
        return Obj(None, {"search": EnvFn("xsearch")})

    it.ext_models["re.compile"] = compile_
    from .classifiers import http_status
    it.ext_models["http.HTTPStatus"] = http_status
    def host_str(it_, v, node):
        try:
            return str(v)
        except ValueError:
            it_.raise_builtin("ValueError", node)

    it.ext_models["str()"] = host_str
    r = call_catch(it, FuncV(it.tree.func(key)), [e])
    if r[0] == "exc":
        return ["raises:" + exc_name(it, r[1])]
    return [it.enum_concrete_name(r[1])]


EXEC = {"budget": exec_budget, "breaker": exec_breaker, "strategy": exec_strategy, "classifier": exec_classifier}


def t_xcheck(it):
    def h(it):
        p = it.path
        n = 40 if getattr(it, "tier", "quick") == "quick" else 600
        cases = gen_cases(getattr(it, "seed", 0), n)
        expected = native(cases)
        agree = {k: 0 for k in EXEC}
        bad = []
        for c, exp in zip(cases, expected):
            it._modconst_cache = {}
            try:
                got = EXEC[c["component"]](it, c)
            except PyRaise as e:
                got = ["escaped", repr(e.exc)]
            except Exception as e:  # Unsupported etc.: outside the subset -> undecided, not a disagreement
                from pyvc.path import Unsupported
                if isinstance(e, Unsupported):
                    raise
                got = ["executor-error", type(e).__name__, str(e)[:200]]
            got = json.loads(json.dumps(got, default=str))
            exp_d = json.loads(json.dumps(exp))
            ok = same([dec(x) if isinstance(x, str) else x for x in _walk(got)], [dec(x) if isinstance(x, str) else x for x in _walk(exp_d)])
            if ok:
                agree[c["component"]] += 1
            elif len(bad) < 5:
                bad.append({"case": c, "executor": got, "cpython": exp_d})
        total = {k: sum(1 for c in cases if c["component"] == k) for k in EXEC}
        if bad:
            # a disagreement says the ENGINE mis-executes this tree (or crashed on it): nothing it proves here can be trusted, and
            # nothing it refutes is a property violation -> reported as a checker failure (exit 3), never as a VIOLATION
            raise RuntimeError("encoder cross-check: the executor disagrees with CPython on this tree: " + json.dumps(bad[:2], default=str)[:1500])
        for k in EXEC:
            p.oblige(f"xcheck/{k}/executor-agrees-with-CPython", agree[k] == total[k], prop=None,
                     detail={"agree": agree[k], "total": total[k], "first_disagreements": [b for b in bad if b["case"]["component"] == k][:2]})
        p.ghost["xcheck"] = {"N": len(cases), "agreements": sum(agree.values())}
        p.cover("xcheck")

    return h


def _walk(x):
    if isinstance(x, (list, tuple)):
        return [_walk(v) for v in x]
    if isinstance(x, dict):
        return {k: _walk(v) for k, v in x.items()}
    return x


TASKS = [Task("xcheck.executor-vs-cpython", t_xcheck, ALL_PROPS, [])]
TASKS[0].weight = 6
TASKS[0].assumptions = ["encoder cross-check: executor in concrete mode vs CPython on seeded random cases (Budget, CircuitBreaker, jitter strategies, classifiers)"]
