"""Sidecar contracts for redress.circuit:CircuitBreaker (C06, C07 breaker level; C17 via locks.py).

Ghost history: each failure deque keeps its popped/cleared prefix in the model array, so
H == arr[0..hi) is every counted failure ever appended to that counter and `c` (ghost, index of the
last clear) marks the last open/close transition: failures in [c, hi) are the ones recorded since then.

Representation invariant INV (assumed at entry of every public method, asserted at every exit):
  failure_threshold >= 1, window_s > 0, recovery_timeout_s > 0, defined class thresholds >= 1,
  class_thresholds.keys() subset of trip_on
  0 <= c <= lo <= hi ; sorted(H) ; all entries <= last clock reading ; forall i in [c, lo): H[i] <= last - window_s
  (same for each existing class bucket)
  CLOSED  => _opened_at is None and len(_failures) < failure_threshold and len(bucket_K) < threshold_K
  !CLOSED => _failures empty and no class bucket exists            (history cleared on every transition)
  OPEN    => _opened_at is not None and _opened_at <= last
  _probe_in_flight => HALF_OPEN
Boundary reading pinned (DESIGN C06/C07): age == window_s is outside the window; now - opened_at >= T admits.
"""
from __future__ import annotations

import z3

from contracts import locks
from pyvc import stdlib
from pyvc.harness import Task, T, call_catch, fbool, fdeque, fint, fopt, freal, param
from pyvc.interp import LoopSpec
from pyvc.ops import term
from pyvc.values import (BoundV, ClassV, DequeV, EnumMap, EnumSet, EnumVal, EnvFn, FuncV, LockV, Obj, SOpt, Sym,
                         fresh_name)

KEY = "redress.circuit:CircuitBreaker"
STATES = ["CLOSED", "OPEN", "HALF_OPEN"]


def dq_inv(dq, c, w, last, tag):
    i, j = z3.Int("i!q"), z3.Int("j!q")
    return [
        (f"{tag}/bounds", z3.And(0 <= c, c <= dq.lo, dq.lo <= dq.hi)),
        (f"{tag}/sorted", z3.ForAll([i, j], z3.Implies(z3.And(0 <= i, i <= j, j < dq.hi), dq.arr[i] <= dq.arr[j]))),
        (f"{tag}/past", z3.ForAll([i], z3.Implies(z3.And(0 <= i, i < dq.hi), dq.arr[i] <= last))),
        (f"{tag}/pruned-prefix", z3.ForAll([i], z3.Implies(z3.And(c <= i, i < dq.lo), dq.arr[i] <= last - w))),
    ]


def split_point(arr, c, p, hi, cutoff):
    i = z3.Int("i!s")
    return z3.And(c <= p, p <= hi,
                  z3.ForAll([i], z3.Implies(z3.And(c <= i, i < p), arr[i] <= cutoff)),
                  z3.ForAll([i], z3.Implies(z3.And(p <= i, i < hi), arr[i] > cutoff)))


class BreakerWorld:
    """A symbolic breaker in an arbitrary state satisfying INV, plus the ghost bookkeeping."""

    def __init__(self, it, klass_name=None, state=None, bucket_present=None):
        tree = it.tree
        self.it = it
        ci = tree.cls(KEY)
        self.ec = tree.cls("redress.errors:ErrorClass")
        self.sc = tree.cls("redress.circuit:CircuitState")
        members = [n for n, _ in self.ec.enum_members]
        self.members = members
        thr = fint("failure_threshold")
        w = freal("window_s")
        rt = freal("recovery_timeout_s")
        trip = EnumSet(self.ec, {n: fbool(f"trip_{n}") for n in members})
        cthr = EnumMap(self.ec, {n: fopt(f"cthr_{n}", fint(f"cthr_{n}")) for n in members})
        self.clock = EnvFn("clock")
        self.failures = fdeque("failures")
        self.lock = LockV()
        st = it.fresh_enum(self.sc, "state") if state is None else it.enum_member(self.sc, state)
        opened = fopt("opened_at", freal("opened_at"))
        probe = fbool("probe")
        self.buckets = {}
        slots = {}
        for n in members:
            # a bucket object exists or not; its existence is a symbolic bool except for the class under test
            if n == klass_name and bucket_present is not None:
                if bucket_present:
                    d = fdeque(f"bucket_{n}")
                    self.buckets[n] = d
                    slots[n] = d
                else:
                    slots[n] = None
            else:
                d = fdeque(f"bucket_{n}")
                self.buckets[n] = d
                slots[n] = SOpt(z3.Bool(fresh_name(f"nobucket_{n}")), d)
        cf = EnumMap(self.ec, slots)
        self.class_failures = cf
        self.obj = Obj(ci, {
            "_failure_threshold": thr, "_window_s": w, "_recovery_timeout_s": rt, "_trip_on": trip,
            "_class_thresholds": cthr, "_clock": self.clock, "_state": st, "_opened_at": opened,
            "_probe_in_flight": probe, "_failures": self.failures, "_class_failures": cf, "_lock": self.lock,
        })
        from pyvc.harness import adopt_unknown_fields
        it.env_models.setdefault("clock", lambda it_, fn, a, k, n: 0.0)
        adopt_unknown_fields(it, self.obj, ci, {}, set(self.obj.fields))
        self.thr, self.w, self.rt = thr.t, w.t, rt.t
        self.trip, self.cthr = trip, cthr
        last = z3.Real(fresh_name("last_now"))
        it.path.ghost["now"] = last
        self.last0 = last
        # ghost clear indices
        self.c = {id(self.failures): z3.Int(fresh_name("c_failures"))}
        for n, d in self.buckets.items():
            self.c[id(d)] = z3.Int(fresh_name(f"c_{n}"))
        self.lo_at_append = {}
        it.mutation_hooks.append(self._on_mutation)
        self.monitor = locks.install_monitor(it, self.obj, KEY)
        for _, f in self.inv(last):
            it.path.assume(f)
        self.snapshot()
        self.install_replay()

    def install_replay(self):
        """concrete breaker state + operation from a counter-model (for native replay)"""
        from pyvc.modelval import arr_slice, val
        it, pth = self.it, self.it.path
        f0 = self.pre["f"]
        b0 = {n: self.pre["buckets"][n] for n in self.members}
        st0, op0, pr0 = self.pre["state"], self.pre["opened"], self.pre["probe"]

        def spec(m):
            names = {0: "CLOSED", 1: "OPEN", 2: "HALF_OPEN"}
            state = next(n for n in ("CLOSED", "OPEN", "HALF_OPEN") if val(m, st0 == it.enum_const(self.sc, n)) is True)
            opened = None if val(m, op0.none) is True else val(m, op0.val.t)
            buckets = {}
            for n, (none0, d0, snap) in b0.items():
                if d0 is not None and val(m, none0) is False:
                    buckets[n] = arr_slice(m, snap[0], snap[1], snap[2])
            return {"component": "breaker", "op": pth.ghost.get("replay_op"), "klass": pth.ghost.get("replay_klass"),
                    "failure_threshold": val(m, self.thr), "window_s": val(m, self.w), "recovery_timeout_s": val(m, self.rt),
                    "trip_on": [n for n in self.members if val(m, self.in_trip(n)) is True],
                    "class_thresholds": {n: val(m, self.cthr_val(n)) for n in self.members if val(m, self.cthr_defined(n)) is True},
                    "state": state, "opened_at": opened, "probe": val(m, pr0), "failures": arr_slice(m, f0[0], f0[1], f0[2]),
                    "buckets": buckets, "now": val(m, pth.ghost["now"])}

        pth.replay_spec = spec

    # ghost updates attached to deque operations
    def _on_mutation(self, it, obj, what):
        if isinstance(obj, DequeV):
            if what == "append":
                self.lo_at_append[id(obj)] = obj.lo
            if what == "clear":
                self.c[id(obj)] = obj.hi

    def state_is(self, name):
        return self.obj.fields["_state"].t == self.it.enum_const(self.sc, name)

    def bucket_none(self, n):
        v = self.obj.fields["_class_failures"].slots.get(n)
        if v is None:
            return z3.BoolVal(True)
        if isinstance(v, SOpt):
            return v.none
        return z3.BoolVal(False)

    def bucket_dq(self, n):
        v = self.obj.fields["_class_failures"].slots.get(n)
        if isinstance(v, SOpt):
            return v.val
        return v

    def cthr_defined(self, n):
        return z3.Not(self.cthr.slots[n].none)

    def cthr_val(self, n):
        return self.cthr.slots[n].val.t

    def in_trip(self, n):
        v = self.trip.slots[n]
        return z3.BoolVal(v) if isinstance(v, bool) else v.t

    def inv(self, last):
        o = self.obj.fields
        closed, opn, half = self.state_is("CLOSED"), self.state_is("OPEN"), self.state_is("HALF_OPEN")
        f = self.obj.fields["_failures"]
        out = [
            ("config/thresholds", z3.And(self.thr >= 1, self.w > 0, self.rt > 0)),
            ("config/class-thresholds>=1",
             z3.And([z3.Implies(self.cthr_defined(n), self.cthr_val(n) >= 1) for n in self.members])),
            ("config/class-threshold-keys-in-trip_on",
             z3.And([z3.Implies(self.cthr_defined(n), self.in_trip(n)) for n in self.members])),
        ]
        out += dq_inv(f, self.c[id(f)], self.w, last, "failures")
        opened = o["_opened_at"]
        onone = self.it.is_none(opened)
        onone = z3.BoolVal(onone) if isinstance(onone, bool) else onone
        oval = opened.val.t if isinstance(opened, SOpt) else (term(opened) if opened is not None else z3.RealVal(0))
        probe = T(self.it.truth(o["_probe_in_flight"]))
        out += [
            ("closed=>opened_at-none", z3.Implies(closed, onone)),
            ("open=>opened_at-set", z3.Implies(opn, z3.And(z3.Not(onone), oval <= last))),
            ("probe=>half_open", z3.Implies(probe, half)),
            ("closed=>below-threshold", z3.Implies(closed, f.hi - f.lo < self.thr)),
            ("not-closed=>history-empty", z3.Implies(z3.Not(closed), f.hi == f.lo)),
        ]
        for n in self.members:
            d = self.bucket_dq(n)
            none = self.bucket_none(n)
            out.append((f"not-closed=>no-bucket/{n}", z3.Implies(z3.Not(closed), none)))
            if d is not None:
                sub = dq_inv(d, self.c.setdefault(id(d), z3.IntVal(0)), self.w, last, f"bucket/{n}")
                out += [(nm, z3.Implies(z3.Not(none), g)) for nm, g in sub]
                out.append((f"bucket/{n}/needs-threshold", z3.Implies(z3.Not(none), self.cthr_defined(n))))
                out.append((f"bucket/{n}/below-threshold",
                            z3.Implies(z3.And(z3.Not(none), closed), d.hi - d.lo < self.cthr_val(n))))
                out.append((f"bucket/{n}/nonempty", z3.Implies(z3.Not(none), d.hi > d.lo)))
        return out

    def snapshot(self):
        o = self.obj.fields
        f = o["_failures"]
        self.pre = {
            "state": o["_state"].t, "opened": o["_opened_at"], "probe": T(self.it.truth(o["_probe_in_flight"])),
            "f": (f.arr, f.lo, f.hi), "c_f": self.c[id(f)],
            "buckets": {n: (self.bucket_none(n), self.bucket_dq(n),
                            (self.bucket_dq(n).arr, self.bucket_dq(n).lo, self.bucket_dq(n).hi)
                            if self.bucket_dq(n) is not None else None) for n in self.members},
            "c": dict(self.c),
        }

    def opened_eq(self, a, b):
        r = self.it.eq(a, b)
        return T(r) if isinstance(r, bool) else r.t

    def unchanged(self, except_probe=False, except_prune=False):
        """everything observable is as in the pre-state"""
        o = self.obj.fields
        f = o["_failures"]
        conj = [o["_state"].t == self.pre["state"], self.opened_eq(o["_opened_at"], self.pre["opened"])]
        if not except_probe:
            conj.append(T(self.it.truth(o["_probe_in_flight"])) == self.pre["probe"])
        conj.append(z3.And(f.arr == self.pre["f"][0], f.hi == self.pre["f"][2]))
        if not except_prune:
            conj.append(f.lo == self.pre["f"][1])
        for n in self.members:
            none0, d0, snap = self.pre["buckets"][n]
            conj.append(self.bucket_none(n) == none0)
            if d0 is not None:
                conj.append(z3.Implies(z3.Not(none0), z3.And(self.bucket_dq(n) is d0, d0.arr == snap[0], d0.lo == snap[1],
                                                             d0.hi == snap[2])))
        return z3.And(conj)

    def history_cleared(self):
        f = self.obj.fields["_failures"]
        return z3.And([f.hi == f.lo] + [self.bucket_none(n) for n in self.members])


def clock_model(world_getter):
    def clock(it, fn, args, kwargs, node):
        wld = world_getter(it)
        locks.clock_guard(it, wld.lock, "redress.circuit:CircuitBreaker.<clock call>")
        g = it.path.ghost
        t = z3.Real(fresh_name("now"))
        it.path.assume(t >= g["now"])
        g["now"] = t
        g["clock_reads"] = g.get("clock_reads", 0) + 1
        return Sym(t, "real")

    return clock


def prune_spec(prop):
    def setup(it, env):
        dq = param(env, 1)
        return {"dq": dq, "lo0": dq.lo, "hi0": dq.hi, "arr0": dq.arr}

    def inv(it, env, idx, ctx):
        dq = ctx["dq"]
        cutoff = Sym(param(env, 2).t - param(env, 0).fields["_window_s"].t, "real")  # now - window_s
        i = z3.Int("i!p")
        return [
            ("range", z3.And(ctx["lo0"] <= dq.lo, dq.lo <= dq.hi)),
            ("frame", z3.And(dq.hi == ctx["hi0"], dq.arr == ctx["arr0"])),
            ("popped-expired", z3.ForAll([i], z3.Implies(z3.And(ctx["lo0"] <= i, i < dq.lo), dq.arr[i] <= cutoff.t))),
        ]

    def decreases(it, env, ctx):
        return ctx["dq"].hi - ctx["dq"].lo

    return LoopSpec(inv, setup=setup, decreases=decreases, prop=None, modifies=lambda it, env, ctx: [(ctx['dq'], None)])


def install(it, prop):
    it.quantified = True
    it.env_models["clock"] = clock_model(lambda it_: it_.path.ghost["world"])
    it.loop_specs[(KEY + "._prune", 1)] = prune_spec(prop)
    stdlib.trusted("CircuitBreaker clock", "A3 for the user-supplied clock: non-decreasing, does not raise, "
                                           "does not re-enter the breaker")


def exit_common(it, wld, fn, prop):
    now = it.path.ghost["now"]
    for n, f in wld.inv(now):
        it.path.oblige(f"{fn}/ensures/inv/{n}", f, prop=None)  # the invariant carries every breaker property
    locks.exit_obligations(it, wld.obj, wld.monitor, fn)


# ---------------------------------------------------------------------------------------------
def t_record_failure(it, member_index=None):
    """C06 (CLOSED) and C07 (OPEN / HALF_OPEN) triples of record_failure, one class member per task."""
    install(it, None)
    tree = it.tree
    fn = KEY + ".record_failure"

    def h(it):
        ec = tree.cls("redress.errors:ErrorClass")
        members = [n for n, _ in ec.enum_members]
        if member_index is not None and member_index >= len(members):
            return
        k = members[it.path.choose(len(members), "klass")] if member_index is None else members[member_index]
        state = STATES[it.path.choose(3, "state")]
        present = bool(it.path.choose(2, "bucket")) if state == "CLOSED" else None
        wld = BreakerWorld(it, klass_name=k, state=state, bucket_present=present)
        it.path.ghost["world"] = wld
        klass = it.enum_member(ec, k)
        it.path.ghost["replay_op"], it.path.ghost["replay_klass"] = "record_failure", k
        r = call_catch(it, BoundV(wld.obj, FuncV(tree.func(fn))), [klass])
        if r[0] == "exc":
            it.path.oblige(f"{fn}/raises/none", False, prop=None)
            return
        res = r[1]
        now = it.path.ghost["now"]
        o = wld.obj.fields
        prop = None  # breaker triples are contract clauses: they count for every property whose check uses the breaker
        it.path.oblige(f"{fn}/ensures/one-clock-read", it.path.ghost.get("clock_reads", 0) == 1, prop=prop)
        exit_common(it, wld, fn, prop)
        res_none = T(it.is_none(res))
        res_opened = T(it.eq(res, "circuit_opened")) if res is not None else z3.BoolVal(False)
        res_opened = res_opened if not isinstance(res_opened, Sym) else res_opened.t
        if state == "OPEN":
            it.path.oblige(f"{fn}/OPEN/unchanged", wld.unchanged(), prop=None)
            it.path.oblige(f"{fn}/OPEN/result-none", res_none, prop=None)
            it.path.cover(f"{fn}/OPEN")
            return
        if state == "HALF_OPEN":
            # every class re-opens, also outside trip_on
            it.path.oblige(f"{fn}/HALF_OPEN/reopens", wld.state_is("OPEN"), prop=None)
            it.path.oblige(f"{fn}/HALF_OPEN/fresh-timeout", wld.opened_eq(o["_opened_at"], Sym(now, "real")), prop=None)
            it.path.oblige(f"{fn}/HALF_OPEN/probe-cleared", z3.Not(T(it.truth(o["_probe_in_flight"]))), prop=None)
            it.path.oblige(f"{fn}/HALF_OPEN/history-empty", wld.history_cleared(), prop=None)
            it.path.oblige(f"{fn}/HALF_OPEN/result", res_opened, prop=None)
            it.path.cover(f"{fn}/HALF_OPEN")
            return
        # ---- CLOSED
        in_trip = wld.in_trip(k)
        if not it.path.branch(in_trip):
            it.path.oblige(f"{fn}/CLOSED/not-in-trip_on/unchanged", wld.unchanged(), prop=None)
            it.path.oblige(f"{fn}/CLOSED/not-in-trip_on/result-none", res_none, prop=None)
            it.path.cover(f"{fn}/CLOSED/not-in-trip_on")
            return
        arr0, lo0, hi0 = wld.pre["f"]
        f = o["_failures"]
        p = wld.lo_at_append.get(id(wld.failures))
        if p is None:
            it.path.oblige(f"{fn}/CLOSED/counted-failure-appended", False, prop=None)
            return
        cutoff = now - wld.w
        it.path.oblige(f"{fn}/CLOSED/prune-is-split-point", split_point(arr0, wld.pre["c_f"], p, hi0, cutoff), prop=None)
        count = hi0 - p + 1  # counted failures since the last transition that are inside the window, incl. this one
        thr_def = wld.cthr_defined(k)
        none0, d0, snap = wld.pre["buckets"][k]
        if present:
            pk = wld.lo_at_append.get(id(d0))
            if it.path.branch(thr_def):
                if pk is None:
                    it.path.oblige(f"{fn}/CLOSED/class-failure-appended", False, prop=None)
                    return
                it.path.oblige(f"{fn}/CLOSED/class-prune-is-split-point",
                               split_point(snap[0], wld.pre["c"][id(d0)], pk, snap[2], cutoff), prop=None)
                count_k = snap[2] - pk + 1
            else:
                count_k = z3.IntVal(0)
        else:
            count_k = z3.IntVal(1)
        should_open = z3.Or(count >= wld.thr, z3.And(thr_def, count_k >= wld.cthr_val(k)))
        opened = wld.state_is("OPEN")
        it.path.oblige(f"{fn}/CLOSED/opens-iff-threshold-reached", opened == should_open, prop=None)
        it.path.oblige(f"{fn}/CLOSED/stays-closed-otherwise", z3.Implies(z3.Not(should_open), wld.state_is("CLOSED")),
                       prop=None)
        it.path.oblige(f"{fn}/CLOSED/opened=>fresh-timeout-empty-history",
                       z3.Implies(opened, z3.And(wld.opened_eq(o["_opened_at"], Sym(now, "real")), wld.history_cleared(),
                                                 res_opened)), prop=None)
        i = z3.Int("i!r")
        it.path.oblige(f"{fn}/CLOSED/not-opened=>appended",
                       z3.Implies(z3.Not(opened), z3.And(
                           res_none, f.hi == hi0 + 1, f.lo == p, f.arr[hi0] == now,
                           z3.ForAll([i], z3.Implies(z3.And(0 <= i, i < hi0), f.arr[i] == arr0[i])))), prop=None)
        it.path.oblige(f"{fn}/CLOSED/probe-untouched", T(it.truth(o["_probe_in_flight"])) == wld.pre["probe"], prop=None)
        # other classes' buckets untouched unless the circuit opened
        conj = []
        for n in wld.members:
            if n == k:
                continue
            n0, dd, sn = wld.pre["buckets"][n]
            conj.append(z3.And(wld.bucket_none(n) == n0,
                               z3.Implies(z3.Not(n0), z3.And(dd.arr == sn[0], dd.lo == sn[1], dd.hi == sn[2]))))
        it.path.oblige(f"{fn}/CLOSED/not-opened=>other-buckets-untouched", z3.Implies(z3.Not(opened), z3.And(conj)),
                       prop=None)
        it.path.oblige(f"{fn}/CLOSED/no-threshold=>no-bucket-created",
                       z3.Implies(z3.And(z3.Not(thr_def), z3.Not(opened)), wld.bucket_none(k) == none0), prop=None)
        it.path.cover(f"{fn}/CLOSED/in-trip_on")
        if it.path.feasible(opened):
            it.path.cover(f"{fn}/CLOSED/opens")
        if it.path.feasible(z3.Not(opened)):
            it.path.cover(f"{fn}/CLOSED/stays-closed")

    return h


def t_record_success(it):
    install(it, None)
    tree = it.tree
    fn = KEY + ".record_success"

    def h(it):
        state = STATES[it.path.choose(3, "state")]
        wld = BreakerWorld(it, state=state)
        it.path.ghost["world"] = wld
        it.path.ghost["replay_op"] = fn.rsplit(".", 1)[1]
        r = call_catch(it, BoundV(wld.obj, FuncV(tree.func(fn))), [])
        if r[0] == "exc":
            it.path.oblige(f"{fn}/raises/none", False, prop=None)
            return
        res = r[1]
        o = wld.obj.fields
        prop = None  # breaker triples are contract clauses: they count for every property whose check uses the breaker
        it.path.oblige(f"{fn}/ensures/no-clock-read", it.path.ghost.get("clock_reads", 0) == 0, prop=prop)
        exit_common(it, wld, fn, prop)
        if state in ("CLOSED", "OPEN"):
            it.path.oblige(f"{fn}/{state}/changes-nothing", wld.unchanged(), prop=prop)
            it.path.oblige(f"{fn}/{state}/result-none", T(it.is_none(res)), prop=prop)
        else:
            it.path.oblige(f"{fn}/HALF_OPEN/closes", wld.state_is("CLOSED"), prop=None)
            it.path.oblige(f"{fn}/HALF_OPEN/history-empty", wld.history_cleared(), prop=None)
            it.path.oblige(f"{fn}/HALF_OPEN/probe-cleared", z3.Not(T(it.truth(o["_probe_in_flight"]))), prop=None)
            it.path.oblige(f"{fn}/HALF_OPEN/opened_at-none", T(it.is_none(o["_opened_at"])), prop=None)
            it.path.oblige(f"{fn}/HALF_OPEN/result", T(it.eq(res, "circuit_closed")), prop=None)
        it.path.cover(f"{fn}/{state}")

    return h


def t_record_cancel(it):
    install(it, None)
    tree = it.tree
    fn = KEY + ".record_cancel"

    def h(it):
        state = STATES[it.path.choose(3, "state")]
        wld = BreakerWorld(it, state=state)
        it.path.ghost["world"] = wld
        it.path.ghost["replay_op"] = fn.rsplit(".", 1)[1]
        r = call_catch(it, BoundV(wld.obj, FuncV(tree.func(fn))), [])
        if r[0] == "exc":
            it.path.oblige(f"{fn}/raises/none", False, prop=None)
            return
        o = wld.obj.fields
        prop = None  # breaker triples are contract clauses: they count for every property whose check uses the breaker
        exit_common(it, wld, fn, prop)
        it.path.oblige(f"{fn}/ensures/no-clock-read", it.path.ghost.get("clock_reads", 0) == 0, prop=prop)
        it.path.oblige(f"{fn}/{state}/only-probe-may-change", wld.unchanged(except_probe=True), prop=prop)
        if state == "HALF_OPEN":
            it.path.oblige(f"{fn}/HALF_OPEN/probe-cleared", z3.Not(T(it.truth(o["_probe_in_flight"]))), prop=None)
        else:
            it.path.oblige(f"{fn}/{state}/unchanged", wld.unchanged(), prop=prop)
        it.path.oblige(f"{fn}/ensures/result-none", T(it.is_none(r[1])), prop=prop)
        it.path.cover(f"{fn}/{state}")

    return h


def t_allow(it):
    install(it, None)
    tree = it.tree
    fn = KEY + ".allow"

    def h(it):
        state = STATES[it.path.choose(3, "state")]
        wld = BreakerWorld(it, state=state)
        it.path.ghost["world"] = wld
        it.path.ghost["replay_op"] = fn.rsplit(".", 1)[1]
        r = call_catch(it, BoundV(wld.obj, FuncV(tree.func(fn))), [])
        if r[0] == "exc":
            it.path.oblige(f"{fn}/raises/none", False, prop=None)
            return
        d = r[1]
        o = wld.obj.fields
        now = it.path.ghost["now"]
        prop = None  # breaker triples are contract clauses: they count for every property whose check uses the breaker
        exit_common(it, wld, fn, prop)
        it.path.oblige(f"{fn}/ensures/one-clock-read", it.path.ghost.get("clock_reads", 0) == 1, prop=prop)
        allowed = T(it.truth(d.fields["allowed"]))
        ev = d.fields["event"]
        dstate = d.fields["state"]
        it.path.oblige(f"{fn}/ensures/decision-state-is-current", dstate.t == o["_state"].t, prop=None)
        if state == "CLOSED":
            it.path.oblige(f"{fn}/CLOSED/allowed", allowed, prop=None)
            it.path.oblige(f"{fn}/CLOSED/unchanged", wld.unchanged(), prop=None)
            it.path.oblige(f"{fn}/CLOSED/no-event", T(it.is_none(ev)), prop=None)
        elif state == "OPEN":
            opened0 = wld.pre["opened"].val.t
            elapsed = now - opened0 >= wld.rt
            it.path.oblige(f"{fn}/OPEN/allowed-iff-timeout-elapsed", allowed == elapsed, prop=None)
            it.path.oblige(f"{fn}/OPEN/rejected=>unchanged-and-event",
                           z3.Implies(z3.Not(allowed), z3.And(wld.unchanged(), T(it.eq(ev, "circuit_rejected")))), prop=None)
            it.path.oblige(f"{fn}/OPEN/admitted=>half-open-with-probe",
                           z3.Implies(allowed, z3.And(wld.state_is("HALF_OPEN"), T(it.truth(o["_probe_in_flight"])),
                                                      T(it.eq(ev, "circuit_half_open")),
                                                      wld.opened_eq(o["_opened_at"], wld.pre["opened"]))), prop=None)
        else:
            it.path.oblige(f"{fn}/HALF_OPEN/allowed-iff-no-probe", allowed == z3.Not(wld.pre["probe"]), prop=None)
            it.path.oblige(f"{fn}/HALF_OPEN/rejected=>unchanged-and-event",
                           z3.Implies(z3.Not(allowed), z3.And(wld.unchanged(), T(it.eq(ev, "circuit_rejected")))), prop=None)
            it.path.oblige(f"{fn}/HALF_OPEN/admitted=>probe-set",
                           z3.Implies(allowed, z3.And(T(it.truth(o["_probe_in_flight"])), wld.unchanged(except_probe=True),
                                                      T(it.is_none(ev)))), prop=None)
        it.path.cover(f"{fn}/{state}")
        if it.path.feasible(allowed):
            it.path.cover(f"{fn}/{state}/allowed")
        if it.path.feasible(z3.Not(allowed)):
            it.path.cover(f"{fn}/{state}/rejected")

    return h


def t_state_property(it):
    install(it, "C17")
    tree = it.tree
    fn = KEY + ".state"

    def h(it):
        wld = BreakerWorld(it)
        it.path.ghost["world"] = wld
        v = it.getattr_value(wld.obj, "state")
        it.path.oblige(f"{fn}/ensures/returns-state", v.t == wld.obj.fields["_state"].t, prop=None)
        it.path.oblige(f"{fn}/ensures/unchanged", wld.unchanged(), prop=None)
        locks.exit_obligations(it, wld.obj, wld.monitor, fn)
        it.path.cover(fn)

    return h


def t_init(it):
    """__init__ establishes INV for every argument combination it accepts, and rejects the rest."""
    install(it, None)
    tree = it.tree
    fn = KEY + ".__init__"

    def h(it):
        ec = tree.cls("redress.errors:ErrorClass")
        members = [n for n, _ in ec.enum_members]
        thr, w, rt = fint("failure_threshold"), freal("window_s"), freal("recovery_timeout_s")
        trip = fopt("trip_on", EnumSet(ec, {n: fbool(f"trip_{n}") for n in members}))
        cthr = fopt("class_thresholds", EnumMap(ec, {n: fopt(f"cthr_{n}", fint(f"cthr_{n}")) for n in members}))
        kwargs = {"failure_threshold": thr, "window_s": w, "recovery_timeout_s": rt, "trip_on": trip,
                  "class_thresholds": cthr}
        use_clock = it.path.choose(2, "clock")
        if use_clock:
            kwargs["clock"] = EnvFn("clock")
        r = call_catch(it, ClassV(tree.cls(KEY)), [], kwargs)
        cm = cthr.val
        cdef = lambda n: z3.And(z3.Not(cthr.none), z3.Not(cm.slots[n].none))
        valid = z3.And(thr.t >= 1, w.t > 0, rt.t > 0,
                       z3.And([z3.Implies(cdef(n), cm.slots[n].val.t >= 1) for n in members]))
        if r[0] == "exc":
            it.path.oblige(f"{fn}/raises/only-when-invalid", z3.Not(valid), prop=None)
            it.path.oblige(f"{fn}/raises/ValueError", it.lattice.isinstance_cond(r[1].cls_t, ValueError), prop=None)
            it.path.cover(f"{fn}/raises")
            return
        b = r[1]
        o = b.fields
        it.path.oblige(f"{fn}/ensures/valid-config", valid, prop=None)
        sc = tree.cls("redress.circuit:CircuitState")
        it.path.oblige(f"{fn}/ensures/starts-closed", o["_state"].t == it.enum_const(sc, "CLOSED"), prop=None)
        it.path.oblige(f"{fn}/ensures/opened_at-none", T(it.is_none(o["_opened_at"])), prop=None)
        it.path.oblige(f"{fn}/ensures/no-probe", z3.Not(T(it.truth(o["_probe_in_flight"]))), prop=None)
        f = o["_failures"]
        it.path.oblige(f"{fn}/ensures/history-empty", z3.And(f.lo == f.hi, f.lo == 0), prop=None)
        cfm = o["_class_failures"]
        it.path.oblige(f"{fn}/ensures/no-buckets", isinstance(cfm, dict) and not cfm, prop=None)
        it.path.oblige(f"{fn}/ensures/config-stored",
                       z3.And(term(o["_failure_threshold"]) == thr.t, term(o["_window_s"]) == w.t,
                              term(o["_recovery_timeout_s"]) == rt.t), prop=None)
        # trip_on' = (trip_on or default) U keys(class_thresholds) ; thresholds copied
        tset = o["_trip_on"]
        cstored = o["_class_thresholds"]
        for n in members:
            tv = tset.slots[n]
            tv = z3.BoolVal(tv) if isinstance(tv, bool) else tv.t
            given = trip.val.slots[n].t
            default = z3.BoolVal(n in ("TRANSIENT", "SERVER_ERROR"))
            expect = z3.Or(z3.If(trip.none, default, given), cdef(n))
            it.path.oblige(f"{fn}/ensures/trip_on/{n}", tv == expect, prop=None)
            if isinstance(cstored, EnumMap):
                sv = cstored.slots.get(n)
                if sv is None:
                    it.path.oblige(f"{fn}/ensures/class-threshold-copied/{n}", z3.Not(cdef(n)), prop=None)
                elif isinstance(sv, SOpt):
                    it.path.oblige(f"{fn}/ensures/class-threshold-copied/{n}",
                                   z3.And(sv.none == z3.Not(cdef(n)), z3.Implies(cdef(n), sv.val.t == cm.slots[n].val.t)),
                                   prop=None)
                else:
                    it.path.oblige(f"{fn}/ensures/class-threshold-copied/{n}",
                                   z3.And(cdef(n), term(sv) == cm.slots[n].val.t), prop=None)
            else:
                it.path.oblige(f"{fn}/ensures/class-threshold-copied/{n}", z3.Not(cdef(n)), prop=None)
        it.path.oblige(f"{fn}/ensures/lock", isinstance(o["_lock"], LockV), prop="C17")
        it.path.cover(f"{fn}/normal")

    return h


def t_lemma_history(it):
    """C07/history: consequences of the triples over a symbolic step, discharged from the
    postconditions as stated above (pure implications over an abstract breaker state).

    (a) OPEN with opened_at = t0 and a clock reading now < t0 + T: every operation leaves OPEN, t0 unchanged
        -> by induction every call in [t0, t0+T) is rejected and the timeout is never refreshed.
    (b) HALF_OPEN with probe in flight stays so under allow(); only record_* clears it
        -> exactly one probe between the admitting allow() and the next record_*."""

    def h(it):
        S = z3.Int("state")  # 0 closed 1 open 2 half
        S2 = z3.Int("state'")
        t0, t0b, now, Tm = z3.Real("opened_at"), z3.Real("opened_at'"), z3.Real("now"), z3.Real("T")
        probe, probe2 = z3.Bool("probe"), z3.Bool("probe'")
        allowed = z3.Bool("allowed")
        # the four OPEN triples as proved above
        allow_open = z3.And(allowed == (now - t0 >= Tm), z3.Implies(z3.Not(allowed), z3.And(S2 == 1, t0b == t0, probe2 == probe)))
        rec_open = z3.And(S2 == 1, t0b == t0, probe2 == probe)
        it.path.oblige("C07/history/open-window-rejects-and-preserves",
                       z3.Implies(z3.And(S == 1, Tm > 0, now < t0 + Tm, z3.Or(allow_open, rec_open)),
                                  z3.And(S2 == 1, t0b == t0, z3.Implies(allow_open, z3.Not(allowed)))), prop=None)
        allow_half = z3.And(allowed == z3.Not(probe), z3.Implies(z3.Not(allowed), z3.And(S2 == 2, probe2 == probe)),
                            z3.Implies(allowed, z3.And(S2 == 2, probe2)))
        it.path.oblige("C07/history/one-probe-at-a-time",
                       z3.Implies(z3.And(S == 2, probe, allow_half), z3.And(z3.Not(allowed), probe2, S2 == 2)), prop=None)
        it.path.oblige("C07/history/probe-slot-taken-by-admission",
                       z3.Implies(z3.And(S == 2, z3.Not(probe), allow_half), z3.And(allowed, probe2)), prop=None)

    return h


def t_members_covered(it):
    """the per-member tasks enumerate ErrorClass completely (read from the real enum on every run)"""

    def h(it):
        ec = it.tree.cls("redress.errors:ErrorClass")
        it.path.oblige("redress.errors:ErrorClass/members-enumerated-by-tasks", len(ec.enum_members) == 8, prop=None,
                       detail=[n for n, _ in ec.enum_members])

    return h


ASSUME = [
    "CircuitBreaker: the clock callable is non-decreasing, does not raise and does not re-enter the breaker (A3/A4)",
    "deque model: (array, lo, hi); popleft/clear only advance lo, so the model array doubles as ghost history",
]
FUNCS = [KEY + "." + m for m in ("__init__", "allow", "record_success", "record_failure", "record_cancel",
                                 "_note_failure", "_prune", "_clear_failures", "state")]

TASKS = [
    Task("circuit.__init__", t_init, ["C06", "C08", "C09", "C12", "C17"], [KEY + ".__init__"]),
] + [
    Task(f"circuit.record_failure[{i}]", (lambda i: (lambda it: t_record_failure(it, i)))(i), ["C06", "C07", "C08", "C09", "C12", "C17"],
         [KEY + ".record_failure", KEY + "._note_failure", KEY + "._prune", KEY + "._clear_failures"])
    for i in range(8)
] + [
    Task("circuit.record_failure[members-covered]", lambda it: t_members_covered(it), ["C06", "C07", "C08", "C09", "C12"], []),
    Task("circuit.record_success", t_record_success, ["C06", "C07", "C08", "C09", "C12", "C17"], [KEY + ".record_success", KEY + "._clear_failures"]),
    Task("circuit.record_cancel", t_record_cancel, ["C06", "C07", "C08", "C09", "C12", "C17"], [KEY + ".record_cancel"]),
    Task("circuit.allow", t_allow, ["C06", "C07", "C08", "C09", "C12", "C17"], [KEY + ".allow"]),
    Task("circuit.state", t_state_property, ["C07", "C08", "C09", "C12", "C17"], [KEY + ".state"]),
    Task("circuit.lemma.history", t_lemma_history, ["C07", "C08", "C09", "C12"], []),
]
for _t in TASKS:
    _t.assumptions = ASSUME
# C14 ("breaker transitions and rejections are reported with ... the breaker's state") is proved at policy level against the *contracts*
# of allow/record_* (event name and decision.state = the state after the operation): those contracts are established by these tasks, so
# they belong to C14's check as well (seed C14-f: a stale pre-transition state in allow()'s decision went unnoticed while they did not)
for _t in TASKS:
    if "C07" in _t.props and "C14" not in _t.props:
        _t.props.append("C14")
for _t in TASKS:
    if _t.name.startswith("circuit.record_failure[") or _t.name == "circuit.__init__":
        _t.weight = 10

for _t in TASKS:
    _t.replay_script = "model_replay.py"
