"""Symbolic world for the retry layer: policy object, ghost state, environment (callback) contracts.

Ghost state lives only in the VCs.  Every environment call has an *assumed* contract (A4: arbitrary
behaviour within its declared type, any exception class) and updates ghost variables; the property
obligations that must hold "at the moment of" an environment event are asserted inside these models.
"""
from __future__ import annotations

import z3

from pyvc import ops, stdlib
from pyvc.harness import T, fbool, fint, fopt, freal, fref, fstr, fxfloat, xfloat_wf
from pyvc.interp_expr import PyRaise
from pyvc.ops import rterm, term, to_sfloat
from pyvc.path import PathEnd, Unsupported
from pyvc.values import (FIN, NAN, BoundV, EnumMap, EnumSet, EnumVal, EnvFn, FuncV, Obj, Ref, SFloat, SOpt, Sym,
                         TimeDelta, fresh_name)

EPS = z3.RealVal("1/1000000")  # 1 microsecond: resolution of the library's timedelta clock

CLASSES = ["AUTH", "PERMISSION", "PERMANENT", "CONCURRENCY", "RATE_LIMIT", "SERVER_ERROR", "TRANSIENT", "UNKNOWN"]
NONRETRY = ["PERMANENT", "AUTH", "PERMISSION"]


class Ghost:
    """Named ghost variables (z3 terms)."""

    INT = ["inv", "sleeps", "tokens", "consume_calls", "n_retry", "n_term", "term_attempt", "strat_calls_attempt",
           "handler_calls", "bs_calls", "handler_calls_attempt", "sleeps_attempt", "bs_calls_attempt",
           "last_op_kind", "last_op_ident", "strat_fn", "strat_arg_attempt", "strat_arg_cls_ident",
           "last_retry_attempt", "term_exc", "last_exc_ident_fail", "hook_raise_count", "polls", "fail_count",
           "last_cls_ident", "elapsed_reads", "fail_ident", "handler_arg_ctx", "bs_arg_ctx", "strat_ctx_ident", "term_count_at_last_attempt"] + \
          [f"ra_{k}" for k in CLASSES]
    REAL = ["slept_total", "now", "post_sleep_elapsed", "last_elapsed", "last_elapsed_t", "strat_arg_remaining",
            "last_sleep_arg", "last_retry_sleep", "term_sleep", "handler_arg_s", "bs_arg_s", "strat_arg_prev",
            "strat_ret_v", "remaining_at_decision", "post_sleep_t"]
    BOOL = ["polled", "aborted", "nonretry_seen", "need_post_sleep_read", "term_reason_none", "term_class_none",
            "term_exc_none", "term_cause_none", "strat_arg_prev_none", "last_fail_valid", "bs_before_sleeper",
            "abort_raised_by_op", "deferred", "handler_aborted", "last_op_was_failure"]
    STR = ["term_event", "term_cause", "strat_arg_cause", "last_cause"]

    def __init__(self, it, fresh=False, prefix="g"):
        self.it = it
        self.v = {}
        ec = it.tree.cls("redress.errors:ErrorClass")
        sr = it.tree.cls("redress.errors:StopReason")
        self.ec, self.sr = ec, sr
        if fresh:
            for n in self.INT:
                self.v[n] = z3.Int(fresh_name(f"{prefix}_{n}"))
            for n in self.REAL:
                self.v[n] = z3.Real(fresh_name(f"{prefix}_{n}"))
            for n in self.BOOL:
                self.v[n] = z3.Bool(fresh_name(f"{prefix}_{n}"))
            for n in self.STR:
                self.v[n] = z3.String(fresh_name(f"{prefix}_{n}"))
            self.v["strat_ret_k"] = z3.Int(fresh_name(f"{prefix}_strat_ret_k"))
            self.v["term_reason"] = it.fresh_enum(sr, f"{prefix}_term_reason").t
            self.v["term_class"] = it.fresh_enum(ec, f"{prefix}_term_class").t
            self.v["last_fail_class"] = it.fresh_enum(ec, f"{prefix}_last_fail_class").t
            self.v["last_cls"] = it.fresh_enum(ec, f"{prefix}_last_cls").t
        else:
            for n in self.INT:
                self.v[n] = z3.IntVal(0)
            for n in self.REAL:
                self.v[n] = z3.RealVal(0)
            for n in self.BOOL:
                self.v[n] = z3.BoolVal(False)
            for n in self.STR:
                self.v[n] = z3.StringVal("")
            self.v["strat_ret_k"] = z3.IntVal(0)
            for n in ("term_reason_none", "term_class_none", "term_exc_none", "term_cause_none"):
                self.v[n] = z3.BoolVal(True)
            self.v["term_reason"] = it.enum_const(sr, "ABORTED")
            self.v["term_class"] = it.enum_const(ec, "UNKNOWN")
            self.v["last_fail_class"] = it.enum_const(ec, "UNKNOWN")
            self.v["last_cls"] = it.enum_const(ec, "UNKNOWN")

    def __getitem__(self, k):
        return self.v[k]

    def __setitem__(self, k, val):
        if isinstance(val, bool):
            val = z3.BoolVal(val)
        elif isinstance(val, int):
            val = z3.IntVal(val)
        self.v[k] = z3.simplify(val) if isinstance(val, z3.ExprRef) else val

    def copy(self):
        g = Ghost.__new__(Ghost)
        g.it, g.ec, g.sr = self.it, self.ec, self.sr
        g.v = dict(self.v)
        return g

    def inc(self, k, by=1):
        self[k] = self.v[k] + by


def tr(v):
    """canonical, comparable form of a value for interaction traces"""
    if v is None or isinstance(v, (str, bool, int, float)):
        return v
    if isinstance(v, z3.ExprRef):
        return v
    if isinstance(v, Sym):
        return v.t
    if isinstance(v, SFloat):
        return (v.k, v.v)
    if isinstance(v, SOpt):
        return ("opt", v.none, tr(v.val))
    if isinstance(v, EnumVal):
        return v.t
    if isinstance(v, (Obj, EnvFn)):
        return v.ident
    if isinstance(v, Ref):
        return v.t
    if isinstance(v, TimeDelta):
        return v.s
    if isinstance(v, (tuple, list)):
        return tuple(tr(x) for x in v)
    return repr(type(v))


def same_tr(a, b):
    if isinstance(a, z3.ExprRef) and isinstance(b, z3.ExprRef):
        return a.eq(b)
    if isinstance(a, tuple) and isinstance(b, tuple):
        return len(a) == len(b) and all(same_tr(x, y) for x, y in zip(a, b))
    if isinstance(a, z3.ExprRef) or isinstance(b, z3.ExprRef):
        return False
    return a == b


def trace(it, tag, *vals):
    it.path.trace.append((tag, tuple(tr(v) for v in vals)))


def G(it) -> Ghost:
    return it.path.ghost["G"]


def W(it) -> "RetryWorld":
    return it.path.ghost["W"]


class RetryWorld:
    """Symbolic retry policy + call-level arguments.  is_async selects AsyncRetry."""

    def __init__(self, it, is_async=False, policy_cls=None):
        tree = it.tree
        self.it = it
        self.is_async = is_async
        ec = tree.cls("redress.errors:ErrorClass")
        self.ec = ec
        self.sr = tree.cls("redress.errors:StopReason")
        self.sd = tree.cls("redress.sleep:SleepDecision")
        key = policy_cls or ("redress.policy.retry_async:AsyncRetry" if is_async else "redress.policy.retry_sync:Retry")
        ci = tree.cls(key)
        self.classifier = EnvFn("classifier")
        self.result_classifier = fopt("result_classifier", EnvFn("result_classifier"))
        self.strategies = {k: fopt(f"strategy_{k}", EnvFn("strategy", attrs={"_k": k})) for k in CLASSES}
        self.default_strategy = fopt("default_strategy", EnvFn("strategy", attrs={"_k": None}))
        self.budget_obj = Obj(tree.cls("redress.budget:Budget"), {"_is_symbolic_budget": True})
        self.budget = fopt("budget", self.budget_obj)
        self.deadline_s = z3.Real(fresh_name("deadline_s"))
        dl = stdlib.fresh_timedelta(it, "deadline")
        self.deadline = dl
        # policy.deadline = timedelta(seconds=deadline_s): rounded to a microsecond (base.py __init__, verified in task base.__init__)
        it.path.assume(z3.And(dl.s - self.deadline_s <= EPS / 2, self.deadline_s - dl.s <= EPS / 2))
        self.max_attempts = fint("max_attempts")
        self.max_unknown = fopt("max_unknown_attempts", fint("max_unknown_attempts"))
        self.limits = {k: fopt(f"limit_{k}", fint(f"limit_{k}")) for k in CLASSES}
        self.attempt_timeout = fopt("attempt_timeout_s", freal("attempt_timeout_s"))
        self.p_sleep = fopt("p_sleep", EnvFn("sleep_fn"))
        self.p_before_sleep = fopt("p_before_sleep", EnvFn("before_sleep"))
        self.p_sleeper = fopt("p_sleeper", EnvFn("sleeper"))
        self.p_start = fopt("p_on_attempt_start", EnvFn("attempt_hook"))
        self.p_end = fopt("p_on_attempt_end", EnvFn("attempt_hook"))
        self.policy = Obj(ci, {
            "classifier": self.classifier,
            "result_classifier": self.result_classifier,
            "_strategies": EnumMap(ec, dict(self.strategies)),
            "_default_strategy": self.default_strategy,
            "sleep": self.p_sleep, "before_sleep": self.p_before_sleep, "sleeper": self.p_sleeper,
            "budget": self.budget,
            "attempt_timeout_s": self.attempt_timeout,
            "deadline": dl,
            "max_attempts": self.max_attempts,
            "max_unknown_attempts": self.max_unknown,
            "per_class_max_attempts": EnumMap(ec, dict(self.limits)),
            "on_attempt_start": self.p_start, "on_attempt_end": self.p_end,
        })
        # call-level arguments
        self.func = EnvFn("func")
        self.on_metric = fopt("on_metric", EnvFn("on_metric"))
        self.on_log = fopt("on_log", EnvFn("on_log"))
        self.operation = fopt("operation", fstr("operation"))
        self.abort_if = fopt("abort_if", EnvFn("abort_if"))
        self.sleep_fn = fopt("sleep_fn", EnvFn("sleep_fn"))
        self.before_sleep = fopt("before_sleep", EnvFn("before_sleep"))
        self.sleeper = fopt("sleeper", EnvFn("sleeper"))
        self.start_hook = fopt("attempt_start_hook", EnvFn("attempt_hook"))
        self.end_hook = fopt("attempt_end_hook", EnvFn("attempt_hook"))
        self.capture_timeline = fopt("capture_timeline", fbool("capture_timeline"))
        self.state = None
        self.attempt = None
        it.path.ghost["W"] = self
        it.path.ghost["G"] = Ghost(it)
        it.path.ghost["now"] = z3.Real(fresh_name("t0"))
        G(it)["now"] = it.path.ghost["now"]

    # --- spec-level accessors -------------------------------------------------------------
    def limit_of(self, k_term):
        """(defined: Bool, value: Int) of per_class_max_attempts[k]"""
        d, v = z3.BoolVal(False), z3.IntVal(0)
        for k in CLASSES:
            c = k_term == self.it.enum_const(self.ec, k)
            d = z3.If(c, z3.Not(self.limits[k].none), d)
            v = z3.If(c, self.limits[k].val.t, v)
        return z3.simplify(d), z3.simplify(v)

    def strategy_defined(self, k_term):
        d = z3.BoolVal(False)
        for k in CLASSES:
            c = k_term == self.it.enum_const(self.ec, k)
            d = z3.If(c, z3.Or(z3.Not(self.strategies[k].none), z3.Not(self.default_strategy.none)), d)
        return z3.simplify(d)

    def strategy_ident(self, k_term):
        """identity of the strategy that must be used for class k (meaningful when defined)"""
        v = self.default_strategy.val.ident
        out = v
        for k in CLASSES:
            c = k_term == self.it.enum_const(self.ec, k)
            out = z3.If(c, z3.If(z3.Not(self.strategies[k].none), self.strategies[k].val.ident, v), out)
        return z3.simplify(out)

    def is_nonretry(self, k_term):
        return z3.Or([k_term == self.it.enum_const(self.ec, k) for k in NONRETRY])

    def is_unknown(self, k_term):
        return k_term == self.it.enum_const(self.ec, "UNKNOWN")

    def runner_kwargs(self, execute=False):
        kw = dict(policy=self.policy, func=self.func, on_metric=self.on_metric, on_log=self.on_log,
                  operation=self.operation, abort_if=self.abort_if, sleep_fn=self.sleep_fn,
                  before_sleep=self.before_sleep, sleeper=self.sleeper, attempt_start_hook=self.start_hook,
                  attempt_end_hook=self.end_hook)
        if execute:
            kw["capture_timeline"] = self.capture_timeline
        return kw


# ---------------------------------------------------------------------------------------------
#  exceptions raised by the environment
# ---------------------------------------------------------------------------------------------
def env_raise(it, origin, only_exception=False, only_base=False):
    e = it.fresh_exc(origin, origin=origin)
    if only_exception:
        it.path.assume(it.lattice.isinstance_cond(e.cls_t, Exception))
    if only_base:
        it.path.assume(z3.Not(it.lattice.isinstance_cond(e.cls_t, Exception)))
    raise PyRaise(e)


def advance_clock(it, by=None):
    """the monotonic clock moves forward by an arbitrary amount (>= by)"""
    g = G(it)
    t = z3.Real(fresh_name("t"))
    it.path.assume(t >= g["now"] + (by if by is not None else 0))
    g["now"] = t
    it.path.ghost["now"] = t


# ---------------------------------------------------------------------------------------------
#  property monitors attached to environment events
# ---------------------------------------------------------------------------------------------
def on_invocation(it):
    """obligations that must hold when the operation is about to be invoked"""
    w, g, p = W(it), G(it), it.path
    if w.attempt is None:
        return
    a = term(w.attempt)
    fk = it.frames[0].func.key if it.frames and it.frames[0].func else "runner"
    p.oblige(f"{fk}/C01/invocations<=max_attempts", g["inv"] + 1 <= w.max_attempts.t, prop="C01")
    p.oblige(f"{fk}/C01/attempt-number-is-invocation-number", a == g["inv"] + 1, prop="C01")
    p.oblige(f"{fk}/C01/no-invocation-after-nonretryable", z3.Not(g["nonretry_seen"]), prop="C01")
    for k in CLASSES:
        p.oblige(f"{fk}/C01/retries-after-class<=limit/{k}",
                 z3.Implies(z3.Not(w.limits[k].none), g[f"ra_{k}"] <= z3.If(w.limits[k].val.t > 0, w.limits[k].val.t, 0)), prop="C01")
    p.oblige(f"{fk}/C01/retries-after-UNKNOWN<=cap",
             z3.Implies(z3.Not(w.max_unknown.none), g["ra_UNKNOWN"] <= z3.If(w.max_unknown.val.t > 0, w.max_unknown.val.t, 0)), prop="C01")
    # C02 (a): an attempt after the first starts only if the post-sleep deadline check passed
    later = a > 1
    p.oblige(f"{fk}/C02/eps/post-sleep-deadline-check-before-attempt",
             z3.Implies(later, z3.And(z3.Not(g["need_post_sleep_read"]),
                                      g["post_sleep_elapsed"] <= w.deadline.s)), prop="C02")
    # the same clause read literally in real seconds (no clock granularity): fails inside the 1us band - finding F6
    st = w.state
    if st is not None:
        start = term(st.fields["start_mono"])
        p.oblige(f"{fk}/C02/exact/no-attempt-once-more-than-deadline_s-elapsed",
                 z3.Implies(later, g["post_sleep_t"] - start <= w.deadline_s), prop="C02")
    # C13: abort_if polled since the last attempt/sleep; no abort pending
    p.oblige(f"{fk}/C13/abort_if-polled-before-attempt", z3.Implies(z3.Not(w.abort_if.none), g["polled"]), prop="C13")
    p.oblige(f"{fk}/C13/no-attempt-after-abort", z3.Not(g["aborted"]), prop="C13")
    # C03: an attempt after a failure only when no terminal event was emitted
    p.oblige(f"{fk}/C14/no-attempt-after-terminal-event", g["n_term"] == 0, prop="C14")
    p.oblige(f"{fk}/C16/no-attempt-after-defer-or-handler-abort", z3.Not(z3.Or(g["deferred"], g["handler_aborted"])), prop="C16")


def on_sleep(it, s):
    """obligations that must hold when the sleeper is about to be called with s"""
    w, g, p = W(it), G(it), it.path
    fk = it.frames[0].func.key if it.frames and it.frames[0].func else "runner"
    sf = to_sfloat(s)
    p.oblige(f"{fk}/C02/sleep-finite-nonnegative", z3.And(sf.k == FIN, sf.v >= 0), prop="C02")
    p.oblige(f"{fk}/C02/eps/sleep<=remaining-at-decision", z3.Implies(sf.k == FIN, sf.v <= g["remaining_at_decision"]), prop="C02")
    st = w.state
    if st is not None:
        start = term(st.fields["start_mono"])
        p.oblige(f"{fk}/C02/exact/sleep<=time-then-remaining",
                 z3.Implies(sf.k == FIN, sf.v <= w.deadline_s - (g["last_elapsed_t"] - start)), prop="C02")
    p.oblige(f"{fk}/C13/abort_if-polled-before-sleep", z3.Implies(z3.Not(w.abort_if.none), g["polled"]), prop="C13")
    p.oblige(f"{fk}/C13/no-sleep-after-abort", z3.Not(g["aborted"]), prop="C13")
    p.oblige(f"{fk}/C14/no-sleep-after-terminal-event", g["n_term"] == 0, prop="C14")
    p.oblige(f"{fk}/C05/sleeper-receives-computed-delay", z3.And(sf.k == FIN, sf.v == g["last_retry_sleep"]), prop="C05")
    p.oblige(f"{fk}/C16/one-sleep-per-granted-retry", g["sleeps_attempt"] == 0, prop="C16")
    p.oblige(f"{fk}/C16/no-sleep-after-defer-or-abort", z3.Not(z3.Or(g["deferred"], g["handler_aborted"])), prop="C16")
    if w.attempt is not None:
        p.oblige(f"{fk}/C03/no-sleep-after-last-permitted-attempt", term(w.attempt) < w.max_attempts.t, prop="C03")


# ---------------------------------------------------------------------------------------------
#  environment models (assumed contracts)
# ---------------------------------------------------------------------------------------------
def begin_invocation(it):
    """the operation is being invoked: property monitors + ghost bookkeeping"""
    g = G(it)
    trace(it, "func")
    on_invocation(it)
    g.inc("inv")
    g["polled"] = False
    g["strat_calls_attempt"] = 0
    g["handler_calls_attempt"] = 0
    g["sleeps_attempt"] = 0
    g["bs_calls_attempt"] = 0
    g["term_count_at_last_attempt"] = g["n_term"]


def m_func(it, fn, args, kwargs, node):
    w, g = W(it), G(it)
    begin_invocation(it)

    def outcome(node_=None):
        advance_clock(it)
        if it.path.choose(2, "func-outcome") == 0:
            r = fref("result")
            g["last_op_kind"] = 1
            g["last_op_ident"] = r.t
            return r
        e = it.fresh_exc("op", origin="func")
        g["last_op_kind"] = 2
        g["last_op_ident"] = e.ident
        ab = it.lattice.isinstance_cond(e.cls_t, it.tree.cls("redress.errors:AbortRetryError"))
        g["aborted"] = z3.Or(g["aborted"], ab)
        g["abort_raised_by_op"] = z3.Or(g["abort_raised_by_op"], ab)
        raise PyRaise(e)

    if w.is_async:
        return ("awaitable", outcome)
    return outcome()


def m_abort_if(it, fn, args, kwargs, node):
    g = G(it)
    trace(it, "abort_if")
    g["polled"] = True
    g.inc("polls")
    b = fbool("abort")
    g["aborted"] = z3.Or(g["aborted"], b.t)
    advance_clock(it)
    return b


def m_classifier(it, fn, args, kwargs, node):
    g = G(it)
    trace(it, "classifier", args[0])
    c = it.path.choose(3, "classifier")
    if c == 2:
        env_raise(it, "classifier")
    k = it.fresh_enum(W(it).ec, "klass")
    if c == 0:
        return k
    ci = it.tree.cls("redress.classify:Classification")
    ra = fopt("retry_after_s", fxfloat("retry_after_s"))
    it.path.assume(xfloat_wf(ra.val))
    return Obj(ci, {"klass": k, "retry_after_s": ra, "details": fref("details")}, frozen=True,
               ident=z3.Int(fresh_name("classification_id")))


def m_result_classifier(it, fn, args, kwargs, node):
    trace(it, "result_classifier", args[0])
    c = it.path.choose(4, "result_classifier")
    if c == 3:
        env_raise(it, "result_classifier")
    if c == 0:
        return None
    k = it.fresh_enum(W(it).ec, "rklass")
    if c == 1:
        return k
    ci = it.tree.cls("redress.classify:Classification")
    ra = fopt("retry_after_s", fxfloat("retry_after_s"))
    it.path.assume(xfloat_wf(ra.val))
    return Obj(ci, {"klass": k, "retry_after_s": ra, "details": fref("details")}, frozen=True,
               ident=z3.Int(fresh_name("classification_id")))


def m_strategy(it, fn, args, kwargs, node):
    g = G(it)
    ctx = args[0]
    trace(it, "strategy", fn, ctx.fields["attempt"], ctx.fields["classification"], ctx.fields["prev_sleep_s"],
          ctx.fields["remaining_s"], ctx.fields["cause"])
    g.inc("strat_calls_attempt")
    g["strat_fn"] = fn.ident
    g["strat_ctx_ident"] = ctx.ident
    g["strat_arg_attempt"] = term(ctx.fields["attempt"])
    g["strat_arg_cls_ident"] = ctx.fields["classification"].ident
    ps = ctx.fields["prev_sleep_s"]
    none, val = ops.opt_parts(ps)
    g["strat_arg_prev_none"] = none
    g["strat_arg_prev"] = to_sfloat(val).v if val is not None else z3.RealVal(0)
    g["strat_arg_remaining"] = rterm(ctx.fields["remaining_s"])
    g["remaining_at_decision"] = rterm(ctx.fields["remaining_s"])
    g["strat_arg_cause"] = ops.sterm(ctx.fields["cause"])
    if it.path.choose(2, "strategy") == 1:
        env_raise(it, "strategy")
    r = fxfloat("strategy_ret")
    it.path.assume(xfloat_wf(r))
    g["strat_ret_k"] = r.k
    g["strat_ret_v"] = r.v
    return r


def m_sleep_fn(it, fn, args, kwargs, node):
    g, w = G(it), W(it)
    fk = it.frames[0].func.key if it.frames and it.frames[0].func else "runner"
    ctx, s = args[0], it.force_num(args[1])
    trace(it, "sleep_fn", fn, ctx, s)
    it.path.oblige(f"{fk}/C16/handler-consulted-once-per-retry", g["handler_calls_attempt"] == 0, prop="C16")
    sf = to_sfloat(s)
    it.path.oblige(f"{fk}/C16/handler-receives-computed-delay", z3.And(sf.k == FIN, sf.v == g["last_retry_sleep"]), prop="C16")
    it.path.oblige(f"{fk}/C16/handler-receives-strategy-context", ctx.ident == g["strat_ctx_ident"], prop="C16")
    it.path.oblige(f"{fk}/C13/abort_if-polled-before-handler", z3.Implies(z3.Not(w.abort_if.none), g["polled"]), prop="C13")
    g.inc("handler_calls")
    g.inc("handler_calls_attempt")
    g["handler_arg_s"] = sf.v
    g["handler_arg_ctx"] = ctx.ident
    c = it.path.choose(5, "sleep_fn")
    if c == 4:
        env_raise(it, "sleep_fn")
    if c == 3:
        return fref("not_a_sleep_decision")
    name = ["SLEEP", "DEFER", "ABORT"][c]
    if name == "DEFER":
        g["deferred"] = True
    if name == "ABORT":
        g["handler_aborted"] = True
    return it.enum_member(w.sd, name)


def m_before_sleep(it, fn, args, kwargs, node):
    g, w = G(it), W(it)
    fk = it.frames[0].func.key if it.frames and it.frames[0].func else "runner"
    ctx, s = args[0], it.force_num(args[1])
    trace(it, "before_sleep", fn, ctx, s)
    sf = to_sfloat(s)
    it.path.oblige(f"{fk}/C16/before_sleep-receives-computed-delay", z3.And(sf.k == FIN, sf.v == g["last_retry_sleep"]), prop="C16")
    it.path.oblige(f"{fk}/C16/before_sleep-before-sleeper", g["sleeps_attempt"] == 0, prop="C16")
    it.path.oblige(f"{fk}/C16/before_sleep-once", g["bs_calls_attempt"] == 0, prop="C16")
    it.path.oblige(f"{fk}/C16/no-before_sleep-after-defer-or-abort", z3.Not(z3.Or(g["deferred"], g["handler_aborted"])), prop="C16")
    g.inc("bs_calls")
    g.inc("bs_calls_attempt")
    g["bs_arg_s"] = sf.v
    advance_clock(it)

    def outcome(node_=None):
        if it.path.choose(2, "before_sleep") == 1:
            g.inc("hook_raise_count")
            env_raise(it, "before_sleep")
        return None

    if w.is_async and not getattr(w, "twin", False):
        k = it.path.choose(3, "before_sleep-awaitable")  # plain value | coroutine | other awaitable
        if k:
            return AwaitableV(outcome, is_coroutine=(k == 1))
    return outcome()


class AwaitableV:
    """value returned by an async user callback: inspect.isawaitable() is True; awaiting it runs `thunk`.
    is_coroutine distinguishes a native coroutine object from any other awaitable (Future, Task, __await__ object)."""

    def __init__(self, thunk, is_coroutine=True):
        self.thunk = thunk
        self.is_coroutine = is_coroutine


def m_sleeper(it, fn, args, kwargs, node):
    g, w = G(it), W(it)
    s = it.force_num(args[0])  # time.sleep(None) is a TypeError
    trace(it, "sleep", fn, s)
    on_sleep(it, s)
    sf = to_sfloat(s)
    g.inc("sleeps")
    g.inc("sleeps_attempt")
    g["slept_total"] = g["slept_total"] + sf.v
    g["last_sleep_arg"] = sf.v
    g["polled"] = False
    g["need_post_sleep_read"] = True

    def outcome(node_=None):
        if it.path.choose(2, "sleeper") == 1:
            env_raise(it, "sleeper")
        advance_clock(it, by=sf.v)  # assumed: a sleeper advances the monotonic clock by at least its argument
        return None

    if w.is_async:
        if fn is None or getattr(w, "twin", False):
            if fn is None:
                return AwaitableV(outcome)  # asyncio.sleep(...) returns a coroutine
        else:
            k = it.path.choose(3, "sleeper-awaitable")  # plain value | coroutine | other awaitable
            if k:
                return AwaitableV(outcome, is_coroutine=(k == 1))
    return outcome()


def m_attempt_hook(it, fn, args, kwargs, node):
    # attempt hooks: arbitrary side effects outside the library, assumed non-raising at runner level
    c = args[0]
    trace(it, "attempt_hook", fn, c.fields["attempt"], c.fields["decision"], c.fields["stop_reason"], c.fields["cause"],
          c.fields["sleep_s"], c.fields["exception"], c.fields["result"], c.fields["classification"])
    advance_clock(it)
    return None


def m_hook_cb(tag):
    def m(it, fn, args, kwargs, node):
        g = G(it)
        lst = it.path.ghost.setdefault("hook_calls", [])
        lst.append((tag, args))
        if it.path.choose(2, tag) == 1:
            g.inc("hook_raise_count")
            env_raise(it, tag)
        return None

    return m


def install_env(it):
    stdlib.install_clock(it)
    stdlib.install_timedelta(it)
    stdlib.install_math(it)
    base_clock = it.ext_models["time.monotonic"]

    def clock(it_, args, kwargs, node):
        r = base_clock(it_, args, kwargs, node)
        G(it_)["now"] = r.t
        return r

    it.ext_models["time.monotonic"] = clock
    it.env_models.update({
        "func": m_func, "abort_if": m_abort_if, "classifier": m_classifier, "result_classifier": m_result_classifier,
        "strategy": m_strategy, "sleep_fn": m_sleep_fn, "before_sleep": m_before_sleep, "sleeper": m_sleeper,
        "attempt_hook": m_attempt_hook, "on_metric": m_hook_cb("on_metric"), "on_log": m_hook_cb("on_log"),
    })
    it.ext_models["time.sleep"] = lambda it_, a, k, n: m_sleeper(it_, None, a, k, n)
    it.ext_models["asyncio.sleep"] = lambda it_, a, k, n: m_sleeper(it_, None, a, k, n)

    def isawaitable(it_, args, kwargs, node):
        return isinstance(args[0], AwaitableV) or (isinstance(args[0], tuple) and args[0] and args[0][0] in ("awaitable", "coro_done"))

    it.ext_models["inspect.isawaitable"] = isawaitable

    def iscoroutine(it_, args, kwargs, node):
        v = args[0]
        if isinstance(v, AwaitableV):
            return v.is_coroutine
        return isinstance(v, tuple) and bool(v) and v[0] == "coro_done"

    it.ext_models["inspect.iscoroutine"] = iscoroutine
    it.ext_models["asyncio.iscoroutine"] = iscoroutine

    # strategies may expose record_success/record_failure (AdaptiveStrategy); arbitrary presence, non-raising no-ops
    def strategy_attr(it_, fn, attr, default):
        if attr in ("record_failure", "record_success"):
            if it_.path.choose(2, f"has-{attr}") == 0:
                return default
            return EnvFn("strategy_record")
        return default

    it.envfn_attr_models["strategy"] = strategy_attr
    it.env_models["strategy_record"] = lambda it_, fn, a, k, n: None

    # thread-pool / wait_for timeouts: "operation outcome or TimeoutError" (external, not verified)
    def call_with_timeout(it_, fv, args, kwargs, node):
        f = args[0]
        if it_.path.choose(2, "timeout") == 1:
            begin_invocation(it_)  # the operation was started
            g = G(it_)
            advance_clock(it_)
            e = it_.make_exc("TimeoutError")
            e.ident = z3.Int(fresh_name("timeout_exc"))
            e.tag = "func"
            g["last_op_kind"] = 2
            g["last_op_ident"] = e.ident
            raise PyRaise(e)
        return it_.call_value(f, [], {})

    it.contracts["redress.policy.runner.sync_core:_call_with_timeout"] = call_with_timeout

    def wait_for(it_, args, kwargs, node):
        aw = args[0]

        def run(node_=None):
            if it_.path.choose(2, "timeout") == 1:
                g = G(it_)
                advance_clock(it_)
                e = it_.make_exc("TimeoutError")
                e.ident = z3.Int(fresh_name("timeout_exc"))
                e.tag = "func"
                g["last_op_kind"] = 2
                g["last_op_ident"] = e.ident
                raise PyRaise(e)
            return it_.await_value(aw, node_)

        return ("awaitable", run)

    it.ext_models["asyncio.wait_for"] = wait_for
    stdlib.trusted("_call_with_timeout / asyncio.wait_for", "external: yields the operation's own outcome or raises TimeoutError; "
                                                             "thread-pool mechanics not verified")
    stdlib.trusted("user callbacks", "A4: func/classifier/result_classifier/strategy/sleep handler/before_sleep/sleeper return any value "
                                     "of the declared type or raise any exception class; abort_if and attempt hooks are assumed "
                                     "non-raising at runner level; a sleeper advances the monotonic clock by at least its argument")
