"""C19 - built-in classifiers: total, follow the documented table and precedence.

Exception objects are symbolic: class is any leaf of the exception lattice (markers, TimeoutError, others), the class
*name* is an arbitrary string, attributes status/status_code/code/sqlstate are absent or hold any built-in value
(sort Any), args is a sequence of any length of such values."""
from __future__ import annotations

import z3

from pyvc import ops, stdlib
from pyvc.harness import T, Task, call_catch, fbool, fint, fstr
from pyvc.interp import LoopSpec
from pyvc.interp_expr import PyRaise
from pyvc.ops import sterm
from pyvc.path import Unsupported
from pyvc.values import (Absentable, AnyV, EnumVal, EnvFn, ExtV, FuncV, Obj, SeqV, SOpt, Sym, fresh_name)

P = "C19"
ATTRS = ["status", "status_code", "code", "sqlstate", "retry_after", "response", "headers"]


def seq_of_any(it, name):
    """args: SeqV whose elements are AnyV built from uninterpreted functions of the index"""
    S = it.any_sort
    I = z3.IntSort()
    f_tag = z3.Function(fresh_name(name + "_tag"), I, S)
    f_i = z3.Function(fresh_name(name + "_i"), I, I)
    f_fk = z3.Function(fresh_name(name + "_fk"), I, I)
    f_fv = z3.Function(fresh_name(name + "_fv"), I, z3.RealSort())
    f_s = z3.Function(fresh_name(name + "_s"), I, z3.StringSort())
    f_b = z3.Function(fresh_name(name + "_b"), I, z3.BoolSort())
    f_t = z3.Function(fresh_name(name + "_t"), I, z3.BoolSort())
    n = z3.Int(fresh_name(name + "_len"))
    it.path.assume(n >= 0)

    def elem(i):
        return it.any_from_terms(f_tag(i), f_i(i), f_fk(i), f_fv(i), f_s(i), f_b(i), f_t(i), f"{name}[{i}]")

    return SeqV(n, elem, name)


class ExcWorld:
    def __init__(self, it):
        self.it = it
        e = it.fresh_exc("err")
        self.exc = e
        self.attr = {}
        for a in ATTRS:
            v = it.fresh_any(a)
            ab = Absentable(z3.Bool(fresh_name(a + "_absent")), v)
            e.fields[a] = ab
            self.attr[a] = ab
        self.args = seq_of_any(it, "args")
        e.fields["args"] = self.args
        self.name = fstr("clsname")
        self.lname = fstr("clsname_lower")
        it.path.ghost["typename"] = {id(e): self.name}
        it.path.ghost["lower"] = {self.name.t.get_id(): self.lname}

    # --- spec helpers
    def isinst(self, target):
        return self.it.lattice.isinstance_cond(self.exc.cls_t, target)

    def present_truthy(self, a):
        ab = self.attr[a]
        return z3.And(z3.Not(ab.absent), self.it.any_truth(ab.val))

    def isint(self, a):
        ab = self.attr[a]
        return z3.And(z3.Not(ab.absent), self.it.any_is(ab.val, "Bool", "Int"))

    def intval(self, a):
        return self.it.any_int_value(self.attr[a].val)


# registered members of http.HTTPStatus in the interpreter the repository runs under (CPython 3.12)
HTTP_STATUS_CODES = [100, 101, 102, 103, 200, 201, 202, 203, 204, 205, 206, 207, 208, 226, 300, 301, 302, 303, 304, 305, 307, 308, 400, 401, 402,
                     403, 404, 405, 406, 407, 408, 409, 410, 411, 412, 413, 414, 415, 416, 417, 418, 421, 422, 423, 424, 425, 426, 428, 429, 431,
                     451, 500, 501, 502, 503, 504, 505, 506, 507, 508, 510, 511]


def http_status(it_, args, kwargs, node):
    """http.HTTPStatus(value): the member whose value equals `value` (an int subclass), ValueError otherwise"""
    v = it_.force(args[0])
    if isinstance(v, (bool, int, float)):
        if v in HTTP_STATUS_CODES:
            return int(v)
        it_.raise_builtin("ValueError", node)
    if isinstance(v, Sym) and v.ty in ("int", "real"):
        hit, val = z3.Or([v.t == c for c in HTTP_STATUS_CODES]), v.t
    elif isinstance(v, AnyV):
        isnum, val, nan, pinf, ninf = it_.any_num_kind(v)
        hit = z3.And(isnum, z3.Not(nan), z3.Not(pinf), z3.Not(ninf), z3.Or([val == c for c in HTTP_STATUS_CODES]))
    else:
        it_.raise_builtin("ValueError", node)
    if not it_.path.branch(hit):
        it_.raise_builtin("ValueError", node)
    return ops.wrap_int(val if val.sort() == z3.IntSort() else z3.ToInt(val))


def install(it):
    stdlib.install_clock(it)

    def lower(it_, obj, args, node):
        cache = it_.path.ghost.setdefault("lower", {})
        if isinstance(obj, str):
            return obj.lower()
        k = obj.t.get_id()
        if k not in cache:
            cache[k] = fstr("lower")
        return cache[k]

    it.ext_models["http.HTTPStatus"] = http_status
    stdlib.trusted("http.HTTPStatus(x)", "CPython 3.12 table of registered status codes; lookup by value equality, ValueError otherwise")
    it.ext_models["str.lower"] = lower
    it.ext_models["str.startswith"] = lambda it_, obj, args, node: ops.wrap_bool(z3.PrefixOf(sterm(args[0]), sterm(obj)))
    stdlib.trusted("str.lower / type(e).__name__", "uninterpreted: some string; `in` is substring containment on it")
    stdlib.trusted("getattr(exc, name, default)", "A5: attributes of the exception are absent or hold a built-in value; reading them does not raise")


def ec(it, name):
    return it.enum_const(it.tree.cls("redress.errors:ErrorClass"), name)


def status_table(it, c, extra422):
    """documented integer table (c: z3 Int)"""
    perm = z3.Or(c == 400, c == 404, c == 422) if extra422 else z3.Or(c == 400, c == 404)
    return [(c == 401, "AUTH"), (c == 403, "PERMISSION"), (perm, "PERMANENT"), (c == 409, "CONCURRENCY"),
            (c == 408, "TRANSIENT"), (c == 429, "RATE_LIMIT"), (z3.And(c >= 500, c < 600), "SERVER_ERROR")]


def classify_spec(it, w: ExcWorld, heuristics: bool):
    """the documented decision table as one z3 term (first match wins: markers > numeric > names)"""
    tree = it.tree
    markers = [(w.isinst(TimeoutError), "TRANSIENT")]
    for cls, k in (("PermanentError", "PERMANENT"), ("RateLimitError", "RATE_LIMIT"), ("ConcurrencyError", "CONCURRENCY"),
                   ("ServerError", "SERVER_ERROR")):
        markers.append((w.isinst(tree.cls(f"redress.errors:{cls}")), k))
    use_status = w.present_truthy("status")
    code_is_int = z3.If(use_status, w.isint("status"), w.isint("code"))
    c = z3.If(use_status, w.intval("status"), w.intval("code"))
    numeric = [(z3.And(code_is_int, cond), k) for cond, k in status_table(it, c, True)]
    names = []
    if heuristics:
        has = lambda s: z3.Contains(w.lname.t, z3.StringVal(s))
        names = [(z3.Or(has("auth"), has("unauthoriz"), has("credential")), "AUTH"),
                 (z3.Or(has("forbid"), has("permission")), "PERMISSION"),
                 (z3.Or(has("timeout"), has("connection")), "TRANSIENT")]
    out = ec(it, "UNKNOWN")
    for cond, k in reversed(markers + numeric + names):
        out = z3.If(cond, ec(it, k), out)
    return out


def any_value_from_model(it, m, v):
    """a concrete python value for an AnyV under model m"""
    from pyvc.modelval import val
    tag = next(t for t, c in it.any_tags.items() if val(m, v.tag == c) is True)
    if tag == "None":
        return None
    if tag == "Bool":
        return bool(val(m, v.b))
    if tag == "Int":
        x = val(m, v.i)
        if isinstance(x, int) and abs(x) >= 10 ** 4000:  # not representable in JSON / by str(): replayed as +-10**5000
            return {"__huge_int__": True, "negative": x < 0}
        return x
    if tag == "Float":
        k = val(m, v.fk)
        return {1: float("inf"), 2: float("-inf"), 3: float("nan")}.get(k, val(m, v.fv))
    if tag == "Str":
        return val(m, v.s)
    if tag == "Bytes":
        return b"x" if val(m, v.truthy) else b""
    if tag == "Container":
        if getattr(v, "str_raises", None) is not None and val(m, v.str_raises) is True and val(m, v.truthy) is True:
            return {"__container_holding_huge_int__": True}
        return [0] if val(m, v.truthy) else []
    return "<object>"


def exc_from_model(it, w, m, which):
    from pyvc.modelval import val
    leaf = next((l for l, c in it.lattice.const.items() if val(m, w.exc.cls_t == c) is True), "Exception*")
    attrs = {}
    for a, ab in w.attr.items():
        if val(m, ab.absent) is False:
            v = any_value_from_model(it, m, ab.val)
            if v != "<object>":
                attrs[a] = v
    name = val(m, w.name.t)
    lname = val(m, w.lname.t)
    # the class name must lower-case to the model's string for the name heuristics: use the lower-cased one
    return {"component": "classifier", "which": which, "leaf": leaf, "name": "".join(ch for ch in (lname or name or "X") if ch.isalnum()) or "X",
            "attrs": attrs}


def t_classify(it, which):
    install(it)
    key = {"default": "redress.classify:default_classifier", "strict": "redress.classify:strict_classifier"}[which]

    def h(it):
        w = ExcWorld(it)
        p = it.path
        p.replay_spec = lambda m: exc_from_model(it, w, m, which)
        r = call_catch(it, FuncV(it.tree.func(key)), [w.exc])
        if r[0] == "exc":
            p.oblige(f"{key}/raises/none", False, prop=P, detail=repr(r[1]))
            return
        res = r[1]
        p.oblige(f"{key}/ensures/returns-ErrorClass", isinstance(res, EnumVal) and res.cls.name == "ErrorClass", prop=P)
        p.oblige(f"{key}/ensures/follows-the-table-and-precedence", res.t == classify_spec(it, w, which == "default"), prop=P)
        if which == "strict":
            p.oblige(f"{key}/ensures/never-looks-at-names", "lower" not in {} and len(p.ghost.get("name_reads", [])) == 0, prop=P)
        nm = it.enum_concrete_name(res)
        p.cover(f"{key}/returns/{nm}")

    if which == "strict":
        # any read of type(err).__name__ is recorded
        orig = it.getattr_value

        def getattr_value(obj, attr, node=None, default=None.__class__):
            if isinstance(obj, tuple) and len(obj) == 2 and obj[0] == "typeof" and attr == "__name__":
                it.path.ghost.setdefault("name_reads", []).append(node)
            return orig(obj, attr, node) if default is None.__class__ else orig(obj, attr, node, default)

        it.getattr_value = getattr_value
    return h


# ---------------------------------------------------------------------------------------------
def coerce_match(it, v: AnyV):
    iv = it.any_int_value(v)
    return z3.And(it.any_is(v, "Bool", "Int"), iv >= 100, iv <= 599)


def t_coerce_status(it):
    install(it)
    key = "redress.extras.http:_coerce_status"

    def inv(it_, env, idx, ctx):
        w = it_.path.ghost["W"]
        j = z3.Int("j!cs")
        i = ops.term(idx)
        return [("no-earlier-arg-matched", z3.ForAll([j], z3.Implies(z3.And(0 <= j, j < i), z3.Not(coerce_match(it_, w.args.elem(j))))))]

    it.loop_specs[(key, 2)] = LoopSpec(inv, prop=P, modifies=lambda it_, env, ctx: [])
    it.quantified = True

    def h(it):
        w = ExcWorld(it)
        p = it.path
        p.ghost["W"] = w
        r = call_catch(it, FuncV(it.tree.func(key)), [w.exc])
        if r[0] == "exc":
            p.oblige(f"{key}/raises/none", False, prop=P, detail=repr(r[1]))
            return
        res = r[1]
        j = z3.Int("j!r")
        first_int_attr = None
        no_attr = z3.And([z3.Not(w.isint(a)) for a in ("status", "status_code", "code")])
        if res is None:
            p.oblige(f"{key}/ensures/None-only-when-nothing-matches",
                     z3.And(no_attr, z3.ForAll([j], z3.Implies(z3.And(0 <= j, j < w.args.length), z3.Not(coerce_match(it, w.args.elem(j)))))), prop=P)
            p.cover(f"{key}/returns-None")
            return
        int_like = isinstance(res, AnyV) or (isinstance(res, Sym) and res.ty == "int") or isinstance(res, int)
        p.oblige(f"{key}/ensures/returns-an-int", int_like, prop=P)
        if not int_like:
            return
        iv = it.any_int_value(res) if isinstance(res, AnyV) else ops.term(res)
        p.oblige(f"{key}/ensures/result-is-int-typed", it.any_is(res, "Bool", "Int") if isinstance(res, AnyV) else True, prop=P)
        # first of status/status_code/code that is an int, else the first matching arg
        s, sc, c = (w.isint(a) for a in ("status", "status_code", "code"))
        expect_attr = z3.If(s, w.intval("status"), z3.If(sc, w.intval("status_code"), w.intval("code")))
        k = z3.Int("k!first")
        p.oblige(f"{key}/ensures/attribute-wins-in-order", z3.Implies(z3.Not(no_attr), iv == expect_attr), prop=P)
        p.oblige(f"{key}/ensures/arg-status-only-in-100..599", z3.Implies(no_attr, z3.And(iv >= 100, iv <= 599)), prop=P)
        p.cover(f"{key}/returns-int")

    return h


def http_table_spec(it, c):
    out = ec(it, "UNKNOWN")
    for cond, k in reversed(status_table(it, c, False)):
        out = z3.If(cond, ec(it, k), out)
    return out


def t_http(it):
    install(it)
    key = "redress.extras.http:http_classifier"

    def coerce_contract(it_, fv, args, kwargs, node):
        # contract of _coerce_status (proved in task extras.http._coerce_status): None, or an int-typed value
        if it_.path.choose(2, "status") == 0:
            it_.path.ghost["status"] = None
            return None
        v = it_.fresh_any("status_val")
        it_.path.assume(it_.any_is(v, "Bool", "Int"))
        it_.path.ghost["status"] = v
        return v

    it.contracts["redress.extras.http:_coerce_status"] = coerce_contract

    def h(it):
        w = ExcWorld(it)
        p = it.path
        r = call_catch(it, FuncV(it.tree.func(key)), [w.exc])
        if r[0] == "exc":
            p.oblige(f"{key}/raises/none", False, prop=P, detail=repr(r[1]))
            return
        res = r[1]
        st = p.ghost.get("status")
        p.oblige(f"{key}/ensures/returns-ErrorClass", isinstance(res, EnumVal) and res.cls.name == "ErrorClass", prop=P)
        if st is None:
            p.oblige(f"{key}/ensures/no-status=>default_classifier", res.t == classify_spec(it, w, True), prop=P)
            p.cover(f"{key}/no-status")
        else:
            p.oblige(f"{key}/ensures/every-integer-status-maps-as-documented", res.t == http_table_spec(it, it.any_int_value(st)), prop=P)
            p.cover(f"{key}/status/{it.enum_concrete_name(res)}")

    return h


# ---------------------------------------------------------------------------------------------
def sqlstate_spec(it, code):
    S = z3.StringVal
    pre = lambda s: z3.PrefixOf(S(s), code)
    rows = [(z3.Or(code == S("40001"), code == S("40P01")), "CONCURRENCY"),
            (z3.Or(code == S("HYT00"), code == S("HYT01"), code == S("08S01"), pre("08")), "TRANSIENT"),
            (pre("28"), "AUTH"),
            (z3.Or(code == S("42000"), code == S("42P01")), "PERMANENT")]
    out = ec(it, "UNKNOWN")
    for cond, k in reversed(rows):
        out = z3.If(cond, ec(it, k), out)
    return out


def install_regex(it):
    def compile_(it_, args, kwargs, node):
        return Obj(None, {"search": EnvFn("regex.search"), "pattern": args[0]})

    it.ext_models["re.compile"] = compile_

    def search(it_, fn, args, kwargs, node):
        if it_.path.choose(2, "regex") == 0:
            return None
        g = fstr("group1")
        it_.path.assume(z3.Length(g.t) == 5)
        return Obj(None, {"group": EnvFn("match.group", attrs={"g": g})})

    it.env_models["regex.search"] = search
    it.env_models["match.group"] = lambda it_, fn, a, k, n: fn.attrs["g"]
    stdlib.trusted("re.Pattern.search", "returns None or a match whose group(1) is a 5-character string; does not raise on str input")
    stdlib.trusted("str(x)", "returns the string itself for str, some string for other built-in values; raises ValueError exactly for an int beyond CPython's str() digit limit (4300 digits) or a container holding one, nothing otherwise")


def t_extract_sqlstate(it, mod):
    install(it)
    install_regex(it)
    key = f"{mod}:_extract_sqlstate"
    it.loop_specs[(key, 1)] = LoopSpec(lambda it_, env, idx, ctx: [("trivial", z3.BoolVal(True))], prop=P,
                                       modifies=lambda it_, env, ctx: [])

    def h(it):
        p = it.path
        args = seq_of_any(it, "args")
        r = call_catch(it, FuncV(it.tree.func(key)), [args])
        if r[0] == "exc":
            p.oblige(f"{key}/raises/none", False, prop=P, detail=repr(r[1]))
            return
        res = r[1]
        p.oblige(f"{key}/ensures/None-or-5-char-string",
                 res is None or (isinstance(res, Sym) and res.ty == "str"), prop=P)
        p.cover(f"{key}/returns-{'None' if res is None else 'str'}")

    return h


def t_sqlstate(it, which):
    install(it)
    install_regex(it)
    mod = {"sqlstate": "redress.extras.sqlstate", "pyodbc": "redress.extras.pyodbc"}[which]
    key = f"{mod}:{which}_classifier"

    def extract_contract(it_, fv, args, kwargs, node):
        if it_.path.choose(2, "extract") == 0:
            return None
        g = fstr("sqlstate_from_args")
        it_.path.assume(z3.Length(g.t) == 5)
        return g

    it.contracts[f"{mod}:_extract_sqlstate"] = extract_contract

    def h(it):
        w = ExcWorld(it)
        p = it.path
        p.replay_spec = lambda m: exc_from_model(it, w, m, which)
        r = call_catch(it, FuncV(it.tree.func(key)), [w.exc])
        if r[0] == "exc":
            p.oblige(f"{key}/raises/none", False, prop=P, detail=repr(r[1]))
            return
        res = r[1]
        p.oblige(f"{key}/ensures/returns-ErrorClass", isinstance(res, EnumVal) and res.cls.name == "ErrorClass", prop=P)
        code = p.ghost.get("sqlstate_code")
        if p.ghost.get("sqlstate_unprintable"):
            # str(sqlstate) itself is refused by CPython (int beyond the str() digit limit): not a code of the table;
            # the property only asks for some ErrorClass, without raising
            p.cover(f"{key}/sqlstate-unprintable")
        elif code is None:
            expect = classify_spec(it, w, True) if which == "sqlstate" else ec(it, "UNKNOWN")
            p.oblige(f"{key}/ensures/no-sqlstate=>fallback", res.t == expect, prop=P)
            p.cover(f"{key}/no-sqlstate")
        else:
            p.oblige(f"{key}/ensures/documented-SQLSTATE-table", res.t == sqlstate_spec(it, code), prop=P)
            p.cover(f"{key}/sqlstate/{it.enum_concrete_name(res)}")

    # ghost: the string the table is applied to = str(sqlstate)
    orig = it.to_str

    def to_str(v, node):
        try:
            r = orig(v, node)
        except PyRaise:
            it.path.ghost["sqlstate_unprintable"] = True
            raise
        it.path.ghost["sqlstate_code"] = sterm(r)
        return r

    it.to_str = to_str
    return h


def t_optional(it, modname, fname, libname):
    """library absent (import raises) => equals default_classifier, no other effect"""
    install(it)
    key = f"redress.extras.{modname}:{fname}"

    def import_module(it_, args, kwargs, node):
        it_.path.ghost["imports"] = it_.path.ghost.get("imports", []) + [args[0]]
        e = it_.fresh_exc("import")
        it_.path.assume(it_.lattice.isinstance_cond(e.cls_t, Exception))
        raise PyRaise(e)

    it.ext_models["importlib.import_module"] = import_module
    stdlib.trusted("importlib.import_module", "library absent: raises some Exception (ImportError); behaviour with the library present is not claimed")

    def h(it):
        w = ExcWorld(it)
        p = it.path
        r = call_catch(it, FuncV(it.tree.func(key)), [w.exc])
        if r[0] == "exc":
            p.oblige(f"{key}/raises/none", False, prop=P, detail=repr(r[1]))
            return
        res = r[1]
        p.oblige(f"{key}/ensures/library-absent=>default_classifier",
                 res.t == classify_spec(it, w, True) if isinstance(res, EnumVal) else False, prop=P)
        p.oblige(f"{key}/ensures/import-attempted", len(p.ghost.get("imports", [])) >= 1, prop=P)
        p.cover(f"{key}/library-absent")

    return h


OPTIONAL = [("aiohttp", "aiohttp_classifier", "aiohttp"), ("grpc", "grpc_classifier", "grpc"),
            ("boto3", "boto3_classifier", "botocore"), ("redis", "redis_classifier", "redis"),
            ("urllib3", "urllib3_classifier", "urllib3")]

TASKS = [
    Task("classify.default_classifier", lambda it: t_classify(it, "default"), [P],
         ["redress.classify:default_classifier", "redress.classify:_classify"]),
    Task("classify.strict_classifier", lambda it: t_classify(it, "strict"), [P],
         ["redress.classify:strict_classifier", "redress.classify:_classify"]),
    Task("extras.http._coerce_status", t_coerce_status, [P], ["redress.extras.http:_coerce_status"]),
    Task("extras.http.http_classifier", t_http, [P], ["redress.extras.http:http_classifier"]),
    Task("extras.sqlstate._extract_sqlstate", lambda it: t_extract_sqlstate(it, "redress.extras.sqlstate"), [P],
         ["redress.extras.sqlstate:_extract_sqlstate"]),
    Task("extras.pyodbc._extract_sqlstate", lambda it: t_extract_sqlstate(it, "redress.extras.pyodbc"), [P],
         ["redress.extras.pyodbc:_extract_sqlstate"]),
    Task("extras.sqlstate.sqlstate_classifier", lambda it: t_sqlstate(it, "sqlstate"), [P], ["redress.extras.sqlstate:sqlstate_classifier"]),
    Task("extras.pyodbc.pyodbc_classifier", lambda it: t_sqlstate(it, "pyodbc"), [P], ["redress.extras.pyodbc:pyodbc_classifier"]),
] + [
    Task(f"extras.{m}.{f}[library-absent]", (lambda m, f, l: (lambda it: t_optional(it, m, f, l)))(m, f, l), [P], [f"redress.extras.{m}:{f}"])
    for (m, f, l) in OPTIONAL
]
for _t in TASKS:
    if _t.name.startswith("classify.") or _t.name.endswith(("sqlstate_classifier", "pyodbc_classifier")):
        _t.replay_script = "model_replay.py"
    _t.assumptions = ["C19: exception attributes are absent or any built-in value (sort Any); objects' __bool__/__eq__/__str__ do not raise; "
                      "str.lower and class names are uninterpreted strings; optional-library classifiers are claimed only with the library absent"]
    _t.weight = 3
