"""Contract SA shared by _sync_sleep_action and _async_sleep_action (C16, C02, C13; twin pair of C12).

requires  decision.action == "retry" with a context; no terminal event yet; handler not yet consulted and
          nothing slept for this attempt; abort_if polled (if configured) and no abort pending;
          decision.sleep_s is the delay announced by the `retry` event, finite, in [0, remaining at decision];
          attempt < max_attempts                      (<- C03 "no sleep after the last permitted attempt")
ensures   see sa_relation()
"""
from __future__ import annotations

import z3

from pyvc import ops
from pyvc.harness import T, Task, call_catch, fint, fopt, freal
from pyvc.ops import rterm, sterm, term, to_sfloat
from pyvc.values import FIN, BoundV, EnumVal, EnvFn, FuncV, Obj, SFloat, SOpt, Sym, fresh_name

from . import stateview as sv
from .state import fk_of, install_state_contracts
from .world import EPS, G, Ghost, RetryWorld, W, env_raise, trace

K_SYNC = "redress.policy.retry_helpers:_sync_sleep_action"
K_ASYNC = "redress.policy.retry_helpers:_async_sleep_action"

GHOST_MODIFIED_BY_SA = ["handler_calls", "handler_calls_attempt", "handler_arg_s", "handler_arg_ctx", "bs_calls",
                        "bs_calls_attempt", "bs_arg_s", "sleeps", "sleeps_attempt", "slept_total", "last_sleep_arg",
                        "polled", "need_post_sleep_read", "now", "n_term", "term_event", "term_attempt", "term_sleep",
                        "term_reason_none", "term_reason", "term_class_none", "term_class", "term_exc_none", "term_exc",
                        "term_cause_none", "term_cause", "deferred", "handler_aborted", "hook_raise_count"]


def sa_requires(it, w, st, attempt, decision, gp, sleep_fn, before_sleep):
    s = to_sfloat(decision.fields["sleep_s"])
    ctx = decision.fields["context"]
    return [
        ("decision-is-retry", "C16", it.eq(decision.fields["action"], "retry") is True),
        ("decision-has-context", "C16", ctx is not None),
        ("no-terminal-event-yet", "C14", gp["n_term"] == 0),
        ("handler-not-yet-consulted", "C16", gp["handler_calls_attempt"] == 0),
        ("nothing-slept-yet-for-this-attempt", "C16", z3.And(gp["sleeps_attempt"] == 0, gp["bs_calls_attempt"] == 0)),
        ("no-defer-or-abort-pending", "C16", z3.Not(z3.Or(gp["deferred"], gp["handler_aborted"]))),
        ("abort_if-polled", "C13", z3.Implies(z3.Not(w.abort_if.none), gp["polled"])),
        ("no-abort-pending", "C13", z3.Not(gp["aborted"])),
        ("delay-is-the-announced-one", "C05", z3.And(s.k == FIN, s.v == gp["last_retry_sleep"])),
        ("delay-within-remaining", "C02", z3.And(s.v >= 0, s.v <= gp["remaining_at_decision"])),
        ("context-is-strategy-context", "C16", ctx.ident == gp["strat_ctx_ident"] if ctx is not None else False),
        ("C03/no-sleep-after-last-permitted-attempt", "C03", term(attempt) < w.max_attempts.t),
        ("stop-reason-not-set", "C03", sv.View(it, st).none("last_stop_reason")),
    ]


def sa_relation(it, w, pre, post, gp, gq, result_t, s, sleep_fn_none, bs_none, last_class_view, last_exc_view, last_cause_view, attempt):
    """(name, prop, formula) for a normal return with result (z3 term of SleepDecision)"""
    sd = w.sd
    D = lambda n: it.enum_const(sd, n)
    R = lambda n: it.enum_const(w.sr, n)
    out = []
    add = lambda n, p, f: out.append((n, p, f))
    is_sleep, is_defer, is_abort = result_t == D("SLEEP"), result_t == D("DEFER"), result_t == D("ABORT")
    add("handler/not-configured=>sleeps", "C16", z3.Implies(sleep_fn_none, z3.And(is_sleep, gq["handler_calls"] == gp["handler_calls"])))
    add("handler/consulted-exactly-once", "C16",
        z3.Implies(z3.Not(sleep_fn_none), z3.And(gq["handler_calls"] == gp["handler_calls"] + 1, gq["handler_calls_attempt"] == 1,
                                                 gq["handler_arg_s"] == s)))
    slept = z3.And(gq["sleeps"] == gp["sleeps"] + 1, gq["sleeps_attempt"] == 1, gq["last_sleep_arg"] == s,
                   gq["slept_total"] == gp["slept_total"] + s, gq["now"] >= gp["now"] + s, gq["need_post_sleep_read"],
                   z3.Not(gq["polled"]))
    not_slept = z3.And(gq["sleeps"] == gp["sleeps"], gq["slept_total"] == gp["slept_total"], gq["bs_calls"] == gp["bs_calls"],
                       gq["need_post_sleep_read"] == gp["need_post_sleep_read"], gq["polled"] == gp["polled"])
    add("SLEEP/one-sleeper-call-with-the-delay", "C16", z3.Implies(is_sleep, slept))
    add("SLEEP/before_sleep-once-iff-configured", "C16",
        z3.Implies(is_sleep, gq["bs_calls"] == gp["bs_calls"] + z3.If(bs_none, 0, 1)))
    add("SLEEP/before_sleep-gets-the-delay", "C16", z3.Implies(z3.And(is_sleep, z3.Not(bs_none)), gq["bs_arg_s"] == s))
    add("SLEEP/no-event-no-stop-reason", "C16",
        z3.Implies(is_sleep, z3.And(gq["n_term"] == gp["n_term"], sv.same_opt(post.f["last_stop_reason"], pre.f["last_stop_reason"]),
                                    z3.Not(gq["deferred"]), z3.Not(gq["handler_aborted"]))))
    add("DEFER/no-sleep", "C16", z3.Implies(is_defer, not_slept))
    add("DEFER/scheduled", "C16",
        z3.Implies(is_defer, z3.And(z3.Not(post.none("last_stop_reason")), post.val("last_stop_reason") == R("SCHEDULED"), gq["deferred"],
                                    gq["n_term"] == gp["n_term"] + 1, gq["term_event"] == z3.StringVal("scheduled"),
                                    gq["term_sleep"] == s, gq["term_attempt"] == attempt,
                                    z3.Not(gq["term_reason_none"]), gq["term_reason"] == R("SCHEDULED"),
                                    gq["term_class_none"] == last_class_view[0],
                                    z3.Implies(z3.Not(last_class_view[0]), gq["term_class"] == last_class_view[1]) if last_class_view[1] is not None else True,
                                    gq["term_exc_none"] == last_exc_view[0],
                                    z3.Implies(z3.Not(last_exc_view[0]), gq["term_exc"] == last_exc_view[1]) if last_exc_view[1] is not None else True,
                                    gq["term_cause_none"] == last_cause_view[0],
                                    z3.Implies(z3.Not(last_cause_view[0]), gq["term_cause"] == last_cause_view[1]) if last_cause_view[1] is not None else True)))
    add("ABORT/no-sleep", "C16", z3.Implies(is_abort, not_slept))
    add("ABORT/aborted", "C16",
        z3.Implies(is_abort, z3.And(z3.Not(post.none("last_stop_reason")), post.val("last_stop_reason") == R("ABORTED"), gq["handler_aborted"],
                                    gq["n_term"] == gp["n_term"] + 1, gq["term_event"] == z3.StringVal("aborted"),
                                    gq["term_attempt"] == attempt,
                                    z3.Not(gq["term_reason_none"]), gq["term_reason"] == R("ABORTED"),
                                    gq["term_class_none"], gq["term_exc_none"], gq["term_cause_none"])))
    add("result-is-a-decision", "C16", z3.Or(is_sleep, is_defer, is_abort))
    add("flags-follow-the-decision", "C16", z3.And(gq["deferred"] == is_defer, gq["handler_aborted"] == is_abort))
    add("state-frame", "C16", sv.same_view(pre, post, [f for f in sv.FIELDS if f != "last_stop_reason"]))
    add("clock-monotone", "C02", gq["now"] >= gp["now"])
    return out


def make_contract(is_async):
    def c_sleep_action(it, fv, args, kwargs, node):
        st, attempt, decision = kwargs["state"], kwargs["attempt"], kwargs["decision"]
        sleep_fn, before_sleep, sleeper = kwargs["sleep_fn"], kwargs["before_sleep"], kwargs["sleeper"]
        w, g, p = W(it), G(it), it.path
        trace(it, "sleep_action", attempt, decision.fields["sleep_s"], decision.fields["context"], sleep_fn, before_sleep, sleeper)
        site = f"{it.frames[-1].func.key.replace('_async_', '_sync_')}/call:sleep_action" if it.frames else "call:sleep_action"
        for n, prop, f in sa_requires(it, w, st, attempt, decision, g, sleep_fn, before_sleep):
            p.oblige(f"{site}/requires/{n}", f, prop=None)
        pre = sv.View(it, st)
        gp = g.copy()
        s = to_sfloat(decision.fields["sleep_s"]).v
        lcv, lev, lcav = pre.f["last_class"], pre.f["last_exc"], pre.f["last_cause"]
        outcome = p.choose(2, "sleep_action")
        gq = Ghost(it, fresh=True, prefix="sa")
        for k in GHOST_MODIFIED_BY_SA:
            g[k] = gq[k]
        it.path.ghost["now"] = g["now"]
        sv.install_fresh(it, st, prefix="sa", only=["last_stop_reason"])
        post = sv.View(it, st)
        fn_none = T(it.is_none(sleep_fn))
        bs_none = T(it.is_none(before_sleep))
        if outcome == 0:
            res = it.fresh_enum(w.sd, "sa_result")
            for n, prop, f in sa_relation(it, w, pre, post, gp, g, res.t, s, fn_none, bs_none, lcv, lev, lcav, term(attempt)):
                p.assume(f)
            p.assume_checked(True)
            if is_async:
                return ("coro_done", res)
            return res
        # exceptional exits: handler raised / returned a non-decision (ValueError) / sleeper raised /
        # before_sleep or an observability hook raised a non-Exception
        p.assume(z3.And(g["now"] >= gp["now"], g["sleeps"] >= gp["sleeps"], g["sleeps"] <= gp["sleeps"] + 1,
                        g["handler_calls"] >= gp["handler_calls"], g["handler_calls"] <= gp["handler_calls"] + 1,
                        g["n_term"] >= gp["n_term"], g["n_term"] <= gp["n_term"] + 1,
                        g["slept_total"] >= gp["slept_total"], g["slept_total"] <= gp["slept_total"] + s,
                        g["bs_calls"] >= gp["bs_calls"], g["bs_calls"] <= gp["bs_calls"] + 1))
        kind = p.choose(4, "sleep_action-raise")
        if kind == 0:
            p.assume(z3.Not(fn_none))
            env_raise(it, "sleep_fn")
        if kind == 1:
            env_raise(it, "sleeper")
        if kind == 2:
            p.assume(z3.Not(fn_none))
            e = it.make_exc("ValueError")
            e.tag = "sleep_fn-invalid-return"
            from pyvc.interp_expr import PyRaise
            raise PyRaise(e)
        env_raise(it, "hook", only_base=True)

    return c_sleep_action


def install(it):
    it.contracts[K_SYNC] = make_contract(False)
    it.contracts[K_ASYNC] = make_contract(True)


def t_sleep_action(it, is_async):
    install_state_contracts(it)
    tree = it.tree
    key = K_ASYNC if is_async else K_SYNC

    def h(it):
        w = RetryWorld(it, is_async=is_async)
        st = sv.make_state(it, w)
        g = Ghost(it, fresh=True, prefix="pre")
        it.path.ghost["G"] = g
        it.path.ghost["now"] = g["now"]
        attempt = fint("attempt")
        w.attempt = attempt
        ctx = sv.fresh_ctx(it, attempt)
        sleep_s = freal("sleep_s")
        dec_ci = tree.cls("redress.policy.state:_RetryDecision")
        decision = Obj(dec_ci, {"action": "retry", "sleep_s": sleep_s, "context": ctx}, frozen=True)
        p = it.path
        for n, prop, f in sa_requires(it, w, st, attempt, decision, g, w.sleep_fn, w.before_sleep):
            p.assume(f if not isinstance(f, bool) else z3.BoolVal(f))
        p.assume(sv.wf_state(it, st))
        pre = sv.View(it, st)
        gp = g.copy()
        lcv, lev, lcav = pre.f["last_class"], pre.f["last_exc"], pre.f["last_cause"]
        r = call_catch(it, FuncV(tree.func(key)), [], {"state": st, "attempt": attempt, "decision": decision,
                                                       "sleep_fn": w.sleep_fn, "before_sleep": w.before_sleep,
                                                       "sleeper": w.sleeper})
        post = sv.View(it, st)
        fn_none = T(it.is_none(w.sleep_fn))
        bs_none = T(it.is_none(w.before_sleep))
        if r[0] == "exc":
            e = r[1]
            p.oblige(f"{key}/raises/origin", e.tag in ("sleep_fn", "sleeper", "hook", "before_sleep", "raised-by-code"), prop=None,
                     detail=str(e.tag))
            if e.tag == "before_sleep":
                p.oblige(f"{key}/C15/before_sleep-Exception-is-confined", z3.Not(it.lattice.isinstance_cond(e.cls_t, Exception)), prop=None)
            if e.tag == "raised-by-code":
                p.oblige(f"{key}/raises/ValueError-only-for-invalid-handler-return",
                         z3.And(it.lattice.isinstance_cond(e.cls_t, ValueError), g["handler_calls"] == gp["handler_calls"] + 1,
                                g["sleeps"] == gp["sleeps"]), prop=None)
            p.oblige(f"{key}/raises/ghost-bounds",
                     z3.And(g["now"] >= gp["now"], g["sleeps"] >= gp["sleeps"], g["sleeps"] <= gp["sleeps"] + 1,
                            g["handler_calls"] >= gp["handler_calls"], g["handler_calls"] <= gp["handler_calls"] + 1,
                            g["n_term"] >= gp["n_term"], g["n_term"] <= gp["n_term"] + 1,
                            g["slept_total"] >= gp["slept_total"], g["slept_total"] <= gp["slept_total"] + sleep_s.t,
                            g["bs_calls"] >= gp["bs_calls"], g["bs_calls"] <= gp["bs_calls"] + 1), prop=None)
            p.cover(f"{key}/raises[{e.tag}]")
            return
        res = r[1]
        if isinstance(res, tuple) and res and res[0] == "coro_done":
            res = res[1]
        p.oblige(f"{key}/ensures/returns-SleepDecision", isinstance(res, EnumVal) and res.cls == w.sd, prop=None)
        for n, prop, f in sa_relation(it, w, pre, post, gp, g, res.t, sleep_s.t, fn_none, bs_none, lcv, lev, lcav, attempt.t):
            p.oblige(f"{key}/ensures/{n}", f, prop=None)
        for k in g.v:
            if k not in GHOST_MODIFIED_BY_SA:
                same = g.v[k].eq(gp.v[k]) if isinstance(g.v[k], z3.ExprRef) else g.v[k] == gp.v[k]
                if not same:
                    p.oblige(f"{key}/frame/ghost/{k}", g.v[k] == gp.v[k], prop=None)
        nm = it.enum_concrete_name(res)
        p.cover(f"{key}/returns/{nm}")
        if z3.is_true(z3.simplify(g["hook_raise_count"] > gp["hook_raise_count"])):
            p.oblige(f"{key}/C15/raising-before_sleep-changes-nothing", True, prop="C15")
            p.cover(f"{key}/before_sleep-raised-and-confined")

    return h


TASKS = [
    Task("retry_helpers._sync_sleep_action", lambda it: t_sleep_action(it, False), ["C01", "C02", "C03", "C04", "C05", "C09", "C10", "C11", "C12", "C13", "C14", "C15", "C16"],
         [K_SYNC, "redress.policy.retry_helpers:_handle_sleep_decision", "redress.policy.retry_helpers:_call_before_sleep"]),
    Task("retry_helpers._async_sleep_action", lambda it: t_sleep_action(it, True), ["C01", "C02", "C03", "C04", "C05", "C09", "C10", "C11", "C12", "C13", "C14", "C15", "C16"],
         [K_ASYNC, "redress.policy.retry_helpers:_handle_sleep_decision", "redress.policy.retry_helpers:_call_before_sleep_async",
          "redress.policy.retry_helpers:_call_async_sleeper"]),
]
