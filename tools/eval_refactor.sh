#!/bin/bash
# usage: tools/eval_refactor.sh <worktree dir> <id>   -- runs every task of every property on a behaviour-preserving change;
# anything but exit 0 (with the usual KNOWN-FINDING lines) is a false alarm or an undecided check to look at
W=$1; ID=$2
echo "== tests on changed tree:"; (cd $W && PYTHONPATH=$W/src /venv/bin/python -m pytest -q -p no:cacheprovider --no-cov -q 2>&1 | tail -1)
REDRESS_SRC=$W/src VERIF_EVIDENCE_DIR=/tmp/ev_refac_$ID /verif/check ANY > /tmp/ev_refac_$ID.out 2>&1; echo "check exit $?"
grep -E "^\[ANY\]|^VIOLATION|^GUARD|^ENGINE|^exit" /tmp/ev_refac_$ID.out | cut -c1-230 | head -30
grep -E "^failed obligation|UNDECIDED" /tmp/ev_refac_$ID.out | cut -c1-230 | sort | uniq -c | sort -rn | head -30
