#!/bin/bash
# Regression of the machinery itself: every stored seeded change must still be detected (exit 1) by its property's quick check,
# every stored behaviour-preserving refactoring must still pass every task (exit 0).  Scratch copies live under /tmp and are removed.
# usage: tools/recheck_seeds.sh [jobs-per-check] [id-regex]
J=${1:-8}; RX=${2:-.}
OUT=/tmp/recheck_seeds.txt; : > $OUT
one() {
  id=$1; kind=$2
  d=$(mktemp -d /tmp/recheck-XXXXXX)
  git -C /repo archive HEAD src | tar -x -C $d
  if [ $kind = seed ]; then pf=/verif/seeded/$id/patch.diff; prop=${id%%-*}; else pf=/verif/refactorings/$id/patch.diff; prop=ANY; fi
  if ! (cd $d && git apply --unsafe-paths -p1 $pf 2>/dev/null || patch -s -p1 < $pf >/dev/null 2>&1); then echo "$id PATCH-DOES-NOT-APPLY" >> $OUT; rm -rf $d; return; fi
  REDRESS_SRC=$d/src VERIF_EVIDENCE_DIR=$d/ev VERIF_NO_SELFMUT=1 /verif/check $prop --jobs $J > $d/out 2>&1; rc=$?
  want=1; [ $kind = refac ] && want=0; [ $id = M5 ] && want=3
  echo "$id exit=$rc want=$want $( [ $rc = $want ] && echo OK || echo MISMATCH ) replayed=$(grep -c '^VIOLATION.*json$' $d/out)" >> $OUT
  rm -rf $d
}
export -f one; export OUT J
(ls -d /verif/seeded/C*/ | xargs -n1 basename | grep -E "$RX" | sed 's/$/ seed/'; ls /verif/refactorings | grep -E "$RX" | sed 's/$/ refac/') | xargs -P ${RECHECK_PAR:-2} -L 1 bash -c 'one $0 $1'
sort $OUT
