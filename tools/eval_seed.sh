#!/bin/bash
# usage: tools/eval_seed.sh <worktree dir> <PROP> <seed-id> [extra props to run]
W=$1; P=$2; ID=$3; shift 3
S=$W/_seed
set -u
echo "== patch applies to /repo: $(git -C /repo apply --check $S/patch.diff 2>&1 && echo yes)"
echo "== tests on changed tree:"; (cd $W && PYTHONPATH=$W/src /venv/bin/python -m pytest -q -p no:cacheprovider --no-cov -q 2>&1 | tail -1)
echo "== demo on /repo (unchanged):"; (cd /tmp && PYTHONPATH=/repo/src /venv/bin/python $S/demo.py 2>&1 | tail -1; echo "exit ${PIPESTATUS[0]}")
echo "== demo on changed tree:"; (cd /tmp && PYTHONPATH=$W/src /venv/bin/python $S/demo.py 2>&1 | tail -1 | cut -c1-300; echo "exit ${PIPESTATUS[0]}")
for Q in $P "$@"; do
  echo "== ./check $Q on changed tree:"
  REDRESS_SRC=$W/src VERIF_EVIDENCE_DIR=/tmp/ev_seed_$ID /verif/check $Q > /tmp/ev_seed_$ID.$Q.out 2>&1; echo "check exit $?"
  grep -E "^VIOLATION|^KNOWN|^GUARD|^ENGINE" /tmp/ev_seed_$ID.$Q.out | cut -c1-230 | head -12
  grep -E "^failed obligation|UNDECIDED" /tmp/ev_seed_$ID.$Q.out | cut -c1-230 | head -12
done
