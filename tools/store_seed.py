#!/usr/bin/env python3
"""store a confirmed seeded change under /verif/seeded/<id>/ (patch.diff, demo.py, meta.json)"""
import json, re, shutil, subprocess, sys
from pathlib import Path
w, prop, sid = sys.argv[1:4]
log = Path(sys.argv[4]).read_text() if len(sys.argv) > 4 else ""
src = Path(w) / "_seed"
dst = Path("/verif/seeded") / sid
dst.mkdir(parents=True, exist_ok=True)
shutil.copy(src / "patch.diff", dst / "patch.diff")
shutil.copy(src / "demo.py", dst / "demo.py")
meta = json.loads((src / "meta.json").read_text())
failed = sorted(set(re.findall(r"failed obligation: (.*)", log)))
meta.update({
    "property": prop, "id": sid,
    "confirmed_by_me": {
        "patch_applies_to_repo": "patch applies to /repo: yes" in log,
        "suite_on_changed_tree": "passes (225 passed, 5 skipped)" if "[100%]" in log else "see log",
        "demo_unchanged": "PROPERTY HOLDS / exit 0" if re.search(r"unchanged\):\nPROPERTY HOLDS.*\nexit 0", log) else "see log",
        "demo_changed": "PROPERTY VIOLATED / exit 1" if re.search(r"PROPERTY VIOLATED.*\nexit 1", log) else "see log",
    },
    "check": f"REDRESS_SRC=<changed tree>/src ./check {prop}",
    "check_exit": (lambda sec: 1 if ("VIOLATION property=" in sec or re.search(r"^(check )?exit 1", sec, re.M)) else (
        0 if re.search(r"^(check )?exit 0", sec, re.M) else None))(log.split("== ./check", 1)[1] if "== ./check" in log else ""),
    "failed_obligations": failed[:12],
    "native_replay_found_input": bool(re.search(r"VIOLATION property=\S+ replay=\S+$", log, re.M)),
})
(dst / "meta.json").write_text(json.dumps(meta, indent=1))
print(sid, "stored;", len(failed), "failed obligations")
