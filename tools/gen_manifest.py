#!/usr/bin/env python3
"""Regenerates MANIFEST.json from the table below (kept in one place so it stays valid)."""
import json, sys
from pathlib import Path
ROOT = Path(__file__).resolve().parent.parent
BASE = "cd /repo && /venv/bin/python -m pytest -ra -q -p no:cacheprovider --timeout=900 --continue-on-collection-errors"
TECH = ("contract-based deductive verification: VCs generated from the real AST by /verif/pyvc, discharged by z3 (cvc5 on unknown); "
        "a bounded native search (replay/*.py, labelled bounded) only replays counter-models and stands in when a proof is undecided")
CHECKS = {}
NA = {}

def claim(pid, text, note, ref, technique=TECH):
    CHECKS[pid] = dict(text=text, note=note, ref=ref, technique=technique)

exec((ROOT / "tools" / "claims.py").read_text())

props = [json.loads(l)["id"] for l in (ROOT / "properties.jsonl").read_text().splitlines() if l.strip()]
checks = []
for pid in props:
    if pid in CHECKS:
        c = CHECKS[pid]
        checks.append({
            "property_id": pid,
            "quick_cmd": f"./check {pid} --tier quick",
            "thorough_cmd": f"./check {pid} --tier thorough",
            "evidence_file": f"/verif/evidence/{pid}.json",
            "replay_cmd_template": f"./check {pid} --replay {{path}}",
            "engine": "pyvc",
            "level_claimed": {"category": "proof", "text": c["text"], "design_ref": c["ref"]},
            "level_note": c["note"],
            "technique": c["technique"],
        })
na = [{"property_id": p, "reason": NA.get(p, "check not built yet (engine layer pending); see DESIGN.md section 6")}
      for p in props if p not in CHECKS]
m = {
    "version": 1,
    "setup_cmd": "true",
    "hooks": {
        "guard": "REDRESS_VERIF",
        "enable": "no hooks in /repo: contracts are sidecar files under /verif/contracts; native replays monkeypatch from outside with REDRESS_VERIF=1",
        "baseline_off_cmd": BASE,
        "source_commits": [],
        "add_only": True,
    },
    "engines": [{"name": "pyvc", "path": "/verif/pyvc", "serves_properties": sorted(CHECKS),
                 "kind_free_text": "symbolic executor with contracts over the real Python AST; z3 5.1 / cvc5 back ends"}],
    "checks": checks,
    "not_applicable": na,
    "notes": ("Sidecar contracts in /verif/contracts; known findings in /verif/known_findings.json; self-mutation lists in /verif/mutations; "
              "89 seeded breaking changes in /verif/seeded and 12 behaviour-preserving refactorings in /verif/refactorings "
              "(tools/recheck_seeds.sh replays them against the current machinery; results in seeded/RECHECK.txt)."),
}
(ROOT / "MANIFEST.json").write_text(json.dumps(m, indent=1) + "\n")
print("claimed", sorted(CHECKS), "na", [x["property_id"] for x in na])
