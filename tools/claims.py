# executed by gen_manifest.py
UNB = ("All inputs/histories: symbolic configuration, symbolic clock readings and an arbitrary pre-state satisfying the "
       "class invariant (inductive over operations), loops cut by inductive invariants. ")
TB = ("Trusted: the pyvc executor's semantics of the Python subset (cross-checked on concrete inputs and by self-mutation), "
      "z3/cvc5, assumptions A1-A6 listed in the evidence file. ")
claim("C06", UNB + "Every method of CircuitBreaker is verified against Hoare triples and the representation invariant; "
      "record_failure's postcondition is the property statement (opens iff in-window counted failures reach a threshold).",
      TB + "Clock callable assumed non-decreasing and non-raising. Half-open window boundary pinned (age == window_s is outside).",
      "DESIGN.md C06")
claim("C07", UNB + "Breaker-level triples for allow/record_* in OPEN and HALF_OPEN plus the history lemma; policy-level admission "
      "obligations are added by the policy layer tasks.",
      TB + "Interleavings of async calls reduce to sequential histories because breaker methods contain no await (audited).",
      "DESIGN.md C07")
claim("C10", UNB + "Budget.consume/remaining/__init__ verified against the WINDOW invariant over the ghost grant history; "
      "lemma window_equiv ties WINDOW to the interval formulation of the property.",
      TB + "time.monotonic non-decreasing (A3); half-open window reading.", "DESIGN.md C10")
claim("C17", "Lock-ownership discipline proved on every path of every method of Budget and CircuitBreaker (guarded access only "
      "under the lock, one critical section, no re-acquire, no callback inside) plus a syntactic audit of mutable fields; the "
      "step from the discipline to linearizability is a stated meta-theorem, not a VC.",
      TB + "Meta-theorem (monitor/Lipton reduction) trusted; the schedule quantifier is not proved - replay/schedules.py explores it boundedly "
      "(two threads, at most two pre-emptions) to replay a failed discipline obligation; timestamp order vs lock order unchecked.",
      "DESIGN.md C17", "lock-discipline contracts discharged per path + syntactic audit; meta-theorem for interleavings")
RUN = ("The four retry loops are executed symbolically against one shared inductive loop invariant (any max_attempts), with "
       "_handle_failure (relation HF), the sleep actions (relation SA), emit, elapsed and Budget.consume under contract; HF and SA "
       "are proved against their real bodies for every ErrorClass, cause, configuration and callback behaviour. ")
ENVN = ("User callbacks are arbitrary within A4 (any value of the declared type, any exception class); abort_if and attempt hooks "
        "assumed non-raising at runner level; sleeper advances the monotonic clock by at least its argument. ")
claim("C01", RUN + "C01's bounds are obligations at every operation invocation and in the loop invariant (ghost counters).", TB + ENVN, "DESIGN.md C01")
claim("C02", RUN + "Deadline clauses are asserted at every invocation and sleeper call over a ghost monotonic clock; statements in true "
      "seconds carry the library's 1 microsecond timedelta resolution (eps obligations).", TB + ENVN +
      "timedelta(seconds=x) modelled as rounding with error <= 0.5us (monotone); the exact sub-microsecond reading is finding F6.", "DESIGN.md C02")
claim("C03", RUN + "HF is a biconditional decision table (retry iff permitted; reported stop reason holds); no-waste clauses are "
      "obligations at the sleeper, budget and retry-event sites.", TB + ENVN, "DESIGN.md C03")
claim("C04", RUN + "Object identity of the returned value / raised exception / RetryExhaustedError fields against the ghost final-attempt record.",
      TB + ENVN + "Traceback frames are not program state: not decided.", "DESIGN.md C04")
claim("C05", RUN + "HF's retry branch pins the strategy identity, its context arguments and sanitise(); SA and the sleeper model pin that the same delay is slept and reported; "
      "legacy signature adapter proved separately.", TB + ENVN + "inspect.signature behind an assumed contract.", "DESIGN.md C05")
claim("C11", RUN + "Field-by-field postcondition of execute()'s RetryOutcome against the ghost final-failure record; raises clause restricted to cancellation, nested "
      "RetryExhaustedError and callback-origin errors.", TB + ENVN, "DESIGN.md C11")
claim("C13", RUN + "Ghost polled/aborted flags asserted at every invocation, handler and sleeper call; cancellation-type exceptions from the operation "
      "leave no further environment interaction before the exit.", TB + ENVN, "DESIGN.md C13")
claim("C14", RUN + "emit's call-site contract is a ghost event automaton (retry* then one terminal event) checked at every real emit site; exit "
      "obligations tie the terminal event to the delivered stop reason and final failure; emit's body proved to feed both hooks identically.",
      TB + ENVN + "Timeline collector proved separately (one timeline event per emitted event whatever on_metric does); breaker events: every "
      "transition/rejection the breaker contract announces is reported once, in order, with the state at announcement (policy-layer tasks); that contract (event name, decision.state = the state after the "
      "operation) is itself proved on the bodies of CircuitBreaker.allow/record_* in the same check (circuit.* tasks).", "DESIGN.md C14")
claim("C15", "Exception confinement and frame proved on the bodies of emit and _call_before_sleep[_async] (every hook outcome incl. raising), and every other "
      "result is proved uniformly in the hooks' behaviour because callers only see those contracts.", TB + ENVN, "DESIGN.md C15")
claim("C16", RUN + "SA is the sleep-handler protocol itself (SLEEP/DEFER/ABORT cases, exactly-once counters), proved on both sleep actions; runner exits tie DEFER/ABORT to delivery.",
      TB + ENVN, "DESIGN.md C16")
claim("C18", "Envelope postconditions on the real closures over an extended-real float model (NaN/inf/range) with symbolic parameters, attempt numbers and random draws; "
      "_exp_cap's loop has an inductive invariant against the exact product.", TB + "A1 (rounding ignored); g**n uninterpreted with witnessed overflow thresholds and multiplicativity instances.", "DESIGN.md C18")
claim("C19", "Totality and decision-table postconditions over a tagged 'any built-in value' sort for attributes, arbitrary exception class and class name; args loops with invariants.",
      TB + "str() raises exactly on ints beyond CPython's 4300-digit limit (finding F11), lower()/regex/http.HTTPStatus behind assumed contracts; "
      "optional-library classifiers only with the library absent.", "DESIGN.md C19")
claim("C20", "Totality and value postconditions of the Retry-After parser chain with assumed-and-witnessed stdlib contracts; honouring proved on retry_after_or.",
      TB + "Header containers raise only Exception subclasses; hint + jitter within float range.", "DESIGN.md C20")
POL = ("Policy/AsyncPolicy.call/execute (with and without retry, with and without breaker) are executed symbolically for every way the admitted "
       "call can end: Retry.call/execute through their proved delivery contracts (value, AbortRetryError, RetryExhaustedError, any other "
       "exception class incl. every BaseException), the operation/hooks/classifier raising any class at each invocation, observability hooks "
       "raising non-Exceptions; the breaker through the (state, probe) abstraction of its proved triples. ")
claim("C08", POL + "Exit obligation on every path: admitted => the breaker was told and no probe slot taken by this call is left set.",
      TB + "Async cancellation modelled as the awaited operation raising CancelledError at its await point (the only suspension points).", "DESIGN.md C08")
claim("C09", POL + "Ghost record log: exactly one record per admitted call, kind/class determined by the final outcome; none for unadmitted calls "
      "(finding F7 for the pre-flight abort path).", TB, "DESIGN.md C09")
claim("C12", "Forwarding lemmas for every sugar entry point (recording-contract targets, identity of every forwarded parameter; constructors, "
      "from_config and the @retry decorator executed symbolically); sync~async by guided co-execution of the real twins (B runs under A's path "
      "condition and environment choices, same fresh-symbol numbering: runners, sleep actions) and by the path product (Policy~AsyncPolicy); call~execute by the path product with the delivery relation at policy level "
      "(quick) and at runner level (thorough tier, ~15 min).",
      TB + ENVN + "Async-only behaviours (cancellation injected at an await, awaitable-returning callbacks) are switched off in the twin "
      "comparison; agreement when observability hooks raise is delegated to C15; library-created objects are identified by creation site.",
      "DESIGN.md A.1", "relational contracts: forwarding lemmas + guided co-execution / path product of the real twins")
