# executed by gen_manifest.py
UNB = ("All inputs/histories: symbolic configuration, symbolic clock readings and an arbitrary pre-state satisfying the "
       "class invariant (inductive over operations), loops cut by inductive invariants. ")
TB = ("Trusted: the pyvc executor's semantics of the Python subset (cross-checked on concrete inputs and by self-mutation), "
      "z3/cvc5, assumptions A1-A6 listed in the evidence file. ")
claim("C06", UNB + "Every method of CircuitBreaker is verified against Hoare triples and the representation invariant; "
      "record_failure's postcondition is the property statement (opens iff in-window counted failures reach a threshold).",
      TB + "Clock callable assumed non-decreasing and non-raising. Half-open window boundary pinned (age == window_s is outside).",
      "DESIGN.md C06")
claim("C07", UNB + "Breaker-level triples for allow/record_* in OPEN and HALF_OPEN plus the history lemma; policy-level admission "
      "obligations are added by the policy layer tasks.",
      TB + "Interleavings of async calls reduce to sequential histories because breaker methods contain no await (audited).",
      "DESIGN.md C07")
claim("C10", UNB + "Budget.consume/remaining/__init__ verified against the WINDOW invariant over the ghost grant history; "
      "lemma window_equiv ties WINDOW to the interval formulation of the property.",
      TB + "time.monotonic non-decreasing (A3); half-open window reading.", "DESIGN.md C10")
claim("C17", "Lock-ownership discipline proved on every path of every method of Budget and CircuitBreaker (guarded access only "
      "under the lock, one critical section, no re-acquire, no callback inside) plus a syntactic audit of mutable fields; the "
      "step from the discipline to linearizability is a stated meta-theorem, not a VC.",
      TB + "Meta-theorem (monitor/Lipton reduction) trusted; the schedule quantifier is not explored; timestamp order vs lock order unchecked.",
      "DESIGN.md C17", "lock-discipline contracts discharged per path + syntactic audit; meta-theorem for interleavings")
