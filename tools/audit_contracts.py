#!/usr/bin/env python3
"""Mechanical scan over the evidence files: every repo function whose CONTRACT is assumed at some call site must have its BODY
executed against that contract by some task of some property's check; anything else is an unchecked assumption and is printed as
ASSUMED-ONLY (exit 1).  Trusted stdlib/user-callback models are listed separately in each evidence file (trusted_base)."""
import collections
import glob
import json
import sys

status = collections.defaultdict(set)
bodies = set()
for f in sorted(glob.glob("/verif/evidence/C*.json")):
    c = json.load(open(f))["coverage"]
    for k, v in (c.get("contracts_used_at_call_sites") or {}).items():
        status[k].add(v.split()[0])
    bodies |= set(c.get("functions_under_contract") or [])
bad = 0
for k in sorted(status):
    if "body" in status[k]:
        print("proved-in-the-same-run ", k)
    elif k in bodies:
        print("proved-by-another-check", k)
    else:
        print("ASSUMED-ONLY           ", k)
        bad += 1
sys.exit(1 if bad else 0)
