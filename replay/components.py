"""Native component engine: counterexample search for the component properties C06, C10, C18, C19, C20.

Protocol (same as scenario.py): one JSON object on stdin ({"property", "budget_s", "seed", "obligation", "model"};
optionally {"case": {...}} to replay one stored case).  The REAL redress library on PYTHONPATH is driven under fake
clocks (time.monotonic, clock= parameters, the wall clock read by extras.http) and forced random draws: no real
sleeping, no threads.  A fixed battery of boundary cases runs first, then seeded random cases until 0.8 * budget_s.
Last stdout line: {"reproduced", "property", "scenarios_tried", "scenario", "observed", "violated_clause"}.

The oracles are written from the property statements.  Where a statement is silent, the reading of the reference
library is fixed once (noted below); where the reference itself departs from a sentence, both answers are accepted.

C06 (BreakerModel, run_c06): histories of fail(class)/ok/cancel/allow/clock steps against a reference model.
  * "opens at the moment, and only at the moment, a recorded failure of a counted class brings the number of counted
    failures within the last window_s seconds to failure_threshold, or the failures of that class to its class
    threshold": after every step taken while CLOSED the library's state equals the model's, and record_failure
    reports an opening exactly when the model opens.  Counted classes = trip_on (default TRANSIENT, SERVER_ERROR) plus
    every class with a class threshold.  Window reading (fixed): a failure at t counts at now iff now - t < window_s.
  * "failures of classes outside trip_on, older than the window, and recorded before the last open or close transition
    never contribute": the model drops them.  "successes while closed change nothing": ok/allow/cancel keep CLOSED.
  * OPEN/HALF_OPEN (C07 matter) is modelled only to keep histories going; there the model adopts the library's state.
C10 (BudgetModel, run_c10): consume(cost)/remaining()/policy calls on a fake monotonic clock.
  * "the number of retries granted in any interval of length window_s never exceeds max_retries": window bound over
    the grants the library really made (direct consumes and `retry` events of sync/async policies sharing the Budget).
  * "refused ... only when the window really is full, and capacity returns exactly when old grants age out": every
    consume/remaining answer and every policy call (number of retries, BUDGET_EXHAUSTED or not) equals the sliding-
    window model (a grant at t occupies [t, t + window_s)).
C18 (run_c18): each strategy under forced random draws (low / high / mid / real).
  * "decorrelated_jitter returns a finite value in [0, max_s]"; "equal_jitter and token_backoff return a value in
    [cap/2, cap] with cap = min(max_s, base_s * g^attempt)" (cap computed exactly with fractions, g = 2 and 1.5);
  * "adaptive() returns its fallback's value scaled by a factor within [min_multiplier, max_multiplier], hence never
    below a non-negative fallback" (the fallback is spied; histories age out between record and call);
  * "retry_after_or returns a finite non-negative delay no larger than the remaining deadline" (+ the C20 band);
  * "none of them raises, whatever random draw occurs".
C19 (expected_class, run_c19): dynamically built exception classes, several instances, SEQUENCES of classifier calls.
  * "return an ErrorClass for every exception object ... and never raise";
  * "marker exception types win over numeric status/code, which win over name heuristics, and every integer status
    maps as documented": default/strict = marker, else table of int(status or code), else names (default only);
    http = first int of status/status_code/code, else an int arg in 100..599, else default; sqlstate/pyodbc = sqlstate
    attribute or the code found in a string arg, through the documented SQLSTATE table.  http/sqlstate/pyodbc in the
    reference look at the code before the markers: both answers are accepted there.
  * "strict_classifier never looks at names"; "each optional-library classifier equals default_classifier when its
    library is absent" (compared with the library's own default_classifier and with the oracle).
C20 (hint_alternatives, run_c20): header containers/casings/values; the wall clock moves between classifications.
  * "never raises and yields either no hint or a non-negative number of seconds";
  * "a decimal integer n within float range gives n, an HTTP-date gives the time until that date clamped at 0 [at the
    moment of each call: within the span of the clock readings of that call], garbage gives no hint";
  * "a policy using retry_after_or then waits at least the hinted time and at most the hint plus jitter_s, except
    where the remaining deadline is smaller"; the fallback is consulted iff there is no finite hint.
"""
import builtins
import json
import math
import random
import re
import signal
import sys
import time
import types
import warnings
from collections.abc import Mapping
from datetime import datetime, timedelta, timezone
from email.utils import format_datetime, parsedate_to_datetime
from fractions import Fraction

R = None                          # the redress module, imported in main()
REL = 1e-9                        # relative slack on float envelopes
NEAR1 = 1.0 - 2.0 ** -53
INF, NAN = float("inf"), float("nan")


class Violation(Exception):
    def __init__(self, clause, observed):
        super().__init__(clause)
        self.clause, self.observed = clause, observed


class Stuck(BaseException):
    """raised by the SIGALRM watchdog when one case runs for more than 10 s (totality includes termination)"""


def watchdog(signum, frame):
    raise Stuck()


class Clock:
    def __init__(self, t=0.0):
        self.t = t

    def __call__(self):
        return self.t


MONO = Clock()                    # installed as time.monotonic in main()


def lib(fn, *a, **kw):
    """call into the library: ('ok', value) or ('raise', text)"""
    try:
        return "ok", fn(*a, **kw)
    except Exception as exc:  # noqa: BLE001 - totality is part of the properties
        return "raise", "%s: %s" % (type(exc).__name__, str(exc)[:120])


def drive(coro):
    """run a coroutine that never really suspends"""
    try:
        coro.send(None)
    except StopIteration as stop:
        return stop.value
    coro.close()
    raise RuntimeError("coroutine suspended")


def failing(exc):
    """a sync and an async operation that raise `exc`"""
    def op():
        raise exc

    async def aop():
        raise exc
    return op, aop


# ---- JSON encoding of the built-in values a case may carry: {"$": kind, ...} ------------------------
DEC = {"float": lambda v: float(v["v"]), "bigint": lambda v: (-1 if v.get("neg") else 1) * 10 ** v["digits"],
       "bytes": lambda v: v["v"].encode(), "bytearray": lambda v: bytearray(v["v"].encode()),
       "tuple": lambda v: tuple(dec(v["v"])), "set": lambda v: set(dec(v["v"])), "object": lambda v: object(),
       "digits": lambda v: v.get("pre", "") + v["d"] * v["n"] + v.get("post", "")}


def F(x):
    return {"$": "float", "v": repr(x)} if isinstance(x, float) and not math.isfinite(x) else x


def dec(v):
    if isinstance(v, dict):
        return DEC[v["$"]](v) if v.get("$") in DEC else {k: dec(x) for k, x in v.items()}
    return [dec(x) for x in v] if isinstance(v, list) else v


def show(x):
    try:
        return ("<int of %d bits>" % x.bit_length() if isinstance(x, int) and abs(x) > 10 ** 30 else repr(x))[:160]
    except ValueError:                # a container holding an int beyond CPython's str() digit limit
        return "<%s holding a huge int>" % type(x).__name__


class Draw:
    """force random.uniform / random.random: 'low', 'high', 'mid', 'near1', a float u, or ['real', seed]"""
    def __init__(self, mode):
        self.mode = mode

    def __enter__(self):
        self.saved = (random.uniform, random.random)
        if isinstance(self.mode, list):
            r = random.Random(self.mode[1])
            random.uniform, random.random = r.uniform, r.random
            return self
        u = {"low": 0.0, "high": 1.0, "mid": 0.5, "near1": NEAR1}.get(self.mode, self.mode)
        random.random = lambda: min(u, NEAR1)
        random.uniform = lambda a, b: b if u == 1.0 else a + (b - a) * u      # CPython's formula: nan for (a, inf) at u = 0
        return self

    def __exit__(self, *exc):
        random.uniform, random.random = self.saved


def gen_draw(rng):
    return rng.choice(["low", "high", "mid", "near1", rng.random(), ["real", rng.randrange(10 ** 6)]])


# ======================================================= C06 =========================================
CLS = ["TRANSIENT", "SERVER_ERROR", "RATE_LIMIT", "CONCURRENCY", "UNKNOWN", "PERMANENT"]


class BreakerModel:
    def __init__(self, cfg):
        self.thr, self.w, self.rec = cfg["failure_threshold"], cfg["window_s"], cfg["recovery_timeout_s"]
        self.cthr = dict(cfg.get("class_thresholds") or {})
        trip = cfg.get("trip_on")
        self.counted = set(["TRANSIENT", "SERVER_ERROR"] if trip is None else trip) | set(self.cthr)
        self.to("closed", None)

    def to(self, state, now):
        """a transition forgets every recorded failure"""
        self.state, self.fails, self.probe = state, [], state == "half_open"
        self.opened_at = now if state == "open" else None

    def live(self, now):
        return [(t, c) for t, c in self.fails if now - t < self.w]

    def step(self, st, now):
        op, s = st[0], self.state
        if op == "fail" and s == "closed" and st[1] in self.counted:
            self.fails.append((now, st[1]))
            live = self.live(now)
            own = sum(1 for _, k in live if k == st[1])
            if len(live) >= self.thr or (st[1] in self.cthr and own >= self.cthr[st[1]]):
                self.to("open", now)
        elif op == "fail" and s == "half_open":
            self.to("open", now)
        elif op == "ok" and s == "half_open":
            self.to("closed", None)
        elif op == "cancel":
            self.probe = False
        elif op == "allow" and s == "open" and now - self.opened_at >= self.rec:
            self.to("half_open", now)
        elif op == "allow" and s == "half_open":
            self.probe = True


def run_c06(case):
    cfg, clk, EC = case["cfg"], Clock(0.0), R.ErrorClass
    kw = {k: cfg[k] for k in ("failure_threshold", "window_s", "recovery_timeout_s")}
    if cfg.get("trip_on") is not None:
        kw["trip_on"] = {EC[c] for c in cfg["trip_on"]}
    if cfg.get("class_thresholds"):
        kw["class_thresholds"] = {EC[c]: n for c, n in cfg["class_thresholds"].items()}
    b, m = R.CircuitBreaker(clock=clk, **kw), BreakerModel(cfg)
    for i, st in enumerate(case["steps"]):
        if st[0] == "to":
            clk.t = max(clk.t, st[1])
            continue
        before, live = m.state, [c for _, c in m.live(clk.t)]
        how, ret = lib({"fail": lambda: b.record_failure(EC[st[1]]), "ok": b.record_success, "cancel": b.record_cancel,
                        "allow": b.allow}[st[0]])
        m.step(st, clk.t)
        got = b.state.value
        obs = {"step": i, "op": st, "t": clk.t, "live_counted_failures_before": live, "returned": show(ret),
               "state": got, "expected_state": m.state}
        if how == "raise":
            raise Violation("breaker operations are defined for every history (no exception)", obs)
        if before != "closed":
            if got != m.state:            # C07 matter: follow the library so that the history can go on
                m.to(got, clk.t)
            continue
        if got != m.state:
            raise Violation("closed breaker opens exactly when counted failures in the window reach failure_threshold / "
                            "the class threshold (not earlier, not later, not on anything else)", obs)
        if st[0] == "fail" and (ret is not None) != (m.state == "open"):
            raise Violation("record_failure reports the opening at the moment it happens, and only then", obs)
        if st[0] == "ok" and ret is not None:
            raise Violation("successes while closed change nothing", obs)
        if st[0] == "allow" and not getattr(ret, "allowed", False):
            raise Violation("a closed breaker stays closed and lets calls through", obs)


def run_c07(case):
    """C07 on direct breaker operations (bounded stand-in, used when the deductive check of C07 is undecided on a tree): the same
    histories as C06, judged where C06's oracle only follows the library - in OPEN and HALF_OPEN - plus "a successful probe closes the
    circuit with an empty failure history": from that moment a FRESH library breaker with the same configuration is driven alongside and
    must agree (state and return value) until the next opening, so that what "empty history" means does not depend on C06's model."""
    cfg, clk, EC = case["cfg"], Clock(0.0), R.ErrorClass
    kw = {k: cfg[k] for k in ("failure_threshold", "window_s", "recovery_timeout_s")}
    if cfg.get("trip_on") is not None:
        kw["trip_on"] = {EC[c] for c in cfg["trip_on"]}
    if cfg.get("class_thresholds"):
        kw["class_thresholds"] = {EC[c]: n for c, n in cfg["class_thresholds"].items()}
    b, m, twin = R.CircuitBreaker(clock=clk, **kw), BreakerModel(cfg), None

    def op(brk, st):
        return lib({"fail": lambda: brk.record_failure(EC[st[1]]), "ok": brk.record_success, "cancel": brk.record_cancel,
                    "allow": brk.allow}[st[0]])
    for i, st in enumerate(case["steps"]):
        if st[0] == "to":
            clk.t = max(clk.t, st[1])
            continue
        before, probe_before, opened_before = m.state, m.probe, m.opened_at
        how, ret = op(b, st)
        tw = op(twin, st) if twin is not None else None
        m.step(st, clk.t)
        got = b.state.value
        obs = {"step": i, "op": st, "t": clk.t, "returned": show(ret), "state": got, "state_before": before}
        if how == "raise":
            raise Violation("breaker operations are defined for every history (no exception)", dict(obs, raised=ret))
        if before == "closed":
            if twin is not None:
                if tw[0] == "raise" or twin.state.value != got or show(tw[1]) != show(ret):
                    raise Violation("a successful probe closes the circuit with an empty failure history (afterwards the breaker must behave "
                                    "like a fresh one)", dict(obs, fresh_breaker_state=twin.state.value, fresh_breaker_returned=show(tw[1])))
                if got != "closed":
                    twin = None
            if got != m.state:            # C06 matter: follow the library
                m.to(got, clk.t)
            continue
        twin = None
        if st[0] == "allow":
            exp = (clk.t - opened_before >= m.rec) if before == "open" else not probe_before
            if bool(getattr(ret, "allowed", None)) != exp:
                raise Violation("an open breaker rejects every call until recovery_timeout_s has elapsed, then admits exactly one probe; all "
                                "others are rejected until its result is recorded", dict(obs, expected_allowed=exp, opened_at=opened_before))
        if got != m.state:
            raise Violation("while open nothing but the probe admission changes the state; a successful probe closes the circuit, a failed "
                            "probe re-opens it with a fresh timeout", dict(obs, expected_state=m.state))
        if before == "half_open" and st[0] == "ok":
            twin = R.CircuitBreaker(clock=clk, **kw)


def battery_c07():
    return battery_c06()


def c06_case(thr, w, rec, trip, cthr, steps):
    return {"cfg": {"failure_threshold": thr, "window_s": w, "recovery_timeout_s": rec, "trip_on": trip,
                    "class_thresholds": cthr}, "steps": steps}


def battery_c06():
    T, S, RL, CC, U = "TRANSIENT", "SERVER_ERROR", "RATE_LIMIT", "CONCURRENCY", "UNKNOWN"
    f, to, recover = (lambda c: ["fail", c]), (lambda t: ["to", t]), [["allow"], ["ok"]]
    return [
        c06_case(3, 4.0, 1.0, None, None, [f(T), to(2.0), f(S), to(4.0), f(T), f(T)]),            # age == window_s
        c06_case(3, 4.0, 1.0, None, None, [f(T), to(3.875), f(T), f(S)]),
        c06_case(3, 2.0, 8.0, [T], {RL: 3}, [f(RL), f(RL), f(RL)]),                                # class thr >= global
        c06_case(2, 2.0, 8.0, [T], {RL: 5}, [f(RL), f(RL)]),
        c06_case(5, 4.0, 1.0, None, {RL: 2}, [f(RL), f(T), f(RL)]),
        c06_case(2, 4.0, 1.0, [T], None, [f(U), f(U), f(S), f(T), ["ok"], f(T)]),
        c06_case(1, 1.0, 1.0, [], {CC: 2}, [f(T), f(S), f(CC), f(T), f(CC)]),
        c06_case(2, 8.0, 1.0, None, None, [f(T), f(T), to(1.0)] + recover + [f(T), f(T)]),        # cleared by transition
        c06_case(2, 8.0, 1.0, None, None, [f(T), f(T), to(1.0), ["allow"], f(T), to(2.0)] + recover + [f(S), f(S)]),
        c06_case(9, 8.0, 1.0, None, {RL: 3, CC: 3}, [f(RL), f(CC), f(RL), f(RL), to(1.0)] + recover
                 + [f(RL), f(CC), f(RL), f(CC), f(CC)]),                                           # classes stay apart
        c06_case(9, 2.0, 1.0, None, {RL: 2, CC: 2}, [f(RL), to(2.0), f(CC), f(RL), f(RL)]),        # stale class entry
        c06_case(9, 2.0, 1.0, None, {RL: 2}, [f(RL), to(2.5), f(T), to(3.0), f(RL), f(RL)]),
        c06_case(3, 4.0, 1.0, None, None, [f(T), ["ok"], f(T), ["cancel"], ["allow"], f(T)]),      # success is no reset
        c06_case(2, 0.5, 16.0, None, None, [f(T), to(0.5), f(T), to(0.875), f(T)]),
    ]


def gen_c06(rng, n):
    pool = rng.sample(CLS, rng.randint(2, 4))
    thr = rng.choice([1, 2, 2, 3, 3, 4, 5, 9])
    w, rec = rng.choice([0.5, 1.0, 2.0, 4.0, 8.0]), rng.choice([0.25, 0.5, 1.0, 2.0, 4.0, 8.0, 16.0])
    trip = rng.choice([None, None, [], 1, 1])
    trip = rng.sample(pool, rng.randint(1, len(pool))) if trip == 1 else trip
    cthr = {}
    if rng.random() < 0.65:
        for c in rng.sample(pool, rng.randint(1, min(3, len(pool)))):
            cthr[c] = rng.choice([1, 2, 2, 3, 3, 4, thr, thr + 1])
    case = c06_case(thr, w, rec, trip, cthr or None, [])
    m, now, pick = BreakerModel(case["cfg"]), 0.0, lambda: rng.choice(pool)
    for _ in range(rng.randint(8, 48)):                       # the model steers towards boundaries and recoveries
        r = rng.random()
        if m.state == "open":
            st = ["to", 0] if r < 0.5 else ["allow"] if r < 0.85 else ["fail", pick()]
        elif m.state == "half_open":
            st = ["ok"] if r < 0.55 else ["fail", pick()] if r < 0.75 else ["cancel"] if r < 0.85 else ["allow"]
        else:
            st = ["fail", pick()] if r < 0.58 else ["ok"] if r < 0.64 else ["cancel"] if r < 0.67 else ["allow"] if r < 0.72 else ["to", 0]
        if st[0] == "to":
            targets = [now + d for d in (0.0, 0.125, 0.25, 0.5, 1.0, w / 2)]
            if m.fails:
                t0 = rng.choice(m.fails)[0]
                targets += [t0 + w, t0 + w, t0 + w, t0 + w - 0.125, t0 + w + 0.125]
            if m.state == "open":
                targets += [m.opened_at + rec] * 6 + [m.opened_at + rec - 0.125, m.opened_at + rec + 0.125]
            now = st[1] = max(now, rng.choice(targets))
        m.step(st, now)
        case["steps"].append(st)
    return case


# ======================================================= C10 =========================================
class BudgetModel:
    def __init__(self, mx, w):
        self.mx, self.w, self.grants = mx, w, []

    def live(self, now):
        return sum(c for t, c in self.grants if now - t < self.w)

    def grant(self, now, cost):
        if self.live(now) + cost > self.mx:
            return False
        self.grants.append((now, cost))
        return True

    def call(self, now, pol):
        """a failing call on a policy: (retries granted, budget exhausted?, time afterwards)"""
        n = 0
        for _ in range(pol["max_attempts"] - 1):
            if not self.grant(now, 1):
                return n, True, now
            n, now = n + 1, now + pol["delay"]
        return n, False, now


def run_c10(case):
    mx, w = case["max_retries"], case["window_s"]
    MONO.t = 1000.0
    how, b = lib(R.Budget, max_retries=mx, window_s=w)
    if how == "raise" and mx >= 0 and w > 0:
        raise Violation("every budget size and window is usable", {"constructor": b})
    if how == "raise" or w <= 0:
        return
    m, events, made = BudgetModel(mx, w), [], []
    op, aop = failing(RuntimeError("scripted failure"))

    def sleeper(d):
        MONO.t += d

    def on_metric(event, attempt, sleep_s, tags):
        events.append([event, attempt, MONO.t])
    pols = [getattr(R, p["kind"])(classifier=lambda e: R.ErrorClass.TRANSIENT, strategy=lambda ctx, d=p["delay"]: d, deadline_s=1e6,
                                  max_attempts=p["max_attempts"], budget=b, sleeper=sleeper) for p in case.get("policies", [])]
    for i, st in enumerate(case["steps"]):
        obs = {"step": i, "op": st, "t": MONO.t, "live_tokens": m.live(MONO.t), "max_retries": mx, "window_s": w,
               "model_grants": m.grants[-8:]}
        if st[0] == "to":
            MONO.t = max(MONO.t, st[1])
        elif st[0] == "consume":
            want = m.grant(MONO.t, st[1])
            how, got = lib(b.consume, st[1])
            obs.update(returned=show(got), expected=want)
            if how == "raise" or bool(got) != want:
                raise Violation("consume is refused only when the window really is full; capacity returns exactly when old grants "
                                "age out" if want else "at most max_retries retries granted per rolling window", obs)
            if got:
                made.append((MONO.t, st[1]))
        elif st[0] == "remaining":
            how, got = lib(b.remaining)
            obs.update(returned=show(got), expected=max(mx - m.live(MONO.t), 0))
            if how == "raise" or got != obs["expected"]:
                raise Violation("remaining() = max_retries minus the grants still inside the window", obs)
        else:
            spec, pol = case["policies"][st[1]], pols[st[1]]
            want_n, want_ex, _ = m.call(MONO.t, spec)
            del events[:]
            fn = getattr(pol, spec.get("method", "execute"))
            try:
                out = drive(fn(aop, on_metric=on_metric)) if spec["kind"].startswith("Async") else fn(op, on_metric=on_metric)
            except Exception as exc:  # noqa: BLE001 - .call re-raises the failure
                out = exc
            retries = [e for e in events if e[0] == "retry"]
            made.extend((e[2], 1) for e in retries)
            stop = getattr(getattr(out, "stop_reason", None), "value", None)
            got_ex = any(e[0] == "budget_exhausted" for e in events) or stop == "BUDGET_EXHAUSTED"
            obs.update(policy=spec, retries=len(retries), expected_retries=want_n, budget_exhausted=got_ex,
                       expected_budget_exhausted=want_ex, stop_reason=stop, events=events[:12])
            if len(retries) != want_n or got_ex != want_ex:
                raise Violation("policies sharing one Budget: a retry is granted iff the shared window has room, and "
                                "refused with BUDGET_EXHAUSTED only when it really is full", obs)
    for s, _ in made:
        n = sum(c for t, c in made if s <= t < s + w)
        if n > max(mx, 0):
            raise Violation("the number of retries granted in any interval of length window_s never exceeds max_retries",
                            {"interval": [s, s + w], "granted": n, "max_retries": mx, "grants": made[:40]})


def battery_c10():
    P = [{"kind": "RetryPolicy", "max_attempts": 4, "delay": 0.0}, {"kind": "AsyncRetryPolicy", "max_attempts": 3, "delay": 0.5},
         {"kind": "Retry", "max_attempts": 3, "delay": 0.0, "method": "call"}, {"kind": "AsyncRetry", "max_attempts": 5, "delay": 1.0}]
    c, r, to, call = (lambda n=1: ["consume", n]), ["remaining"], (lambda t: ["to", 1000.0 + t]), (lambda i: ["call", i])

    def case(mx, w, steps, pols=None):
        return {"max_retries": mx, "window_s": w, "policies": pols or [], "steps": steps}
    return [
        case(2, 10.0, [c(), to(5), c(), c(), to(10), c(), c(), to(15), c(), c(), r]),                 # staggered expiry
        case(2, 10.0, [c(), c(), c(), to(10), c(), r, c(), c()]),                                    # exactly t + window
        case(2, 10.0, [c(), c(), to(9.875), c(), r, to(10), r, c(), c(), c()]),
        case(3, 4.0, [c(2), r, c(2), c(), r, c(), to(4), c(3), r, to(8), r]),
        case(3, 4.0, [c(), r, c(), r, c(), r, c(), r, to(2), r, c()]),                               # remaining() is pure
        case(3, 4.0, [c(), to(1), c(), to(2), c(), to(4), c(), c(), to(5), c(), c(), to(6), c(), c()]),
        case(0, 2.0, [c(), r, to(2), c(), r]),
        case(1, 0.5, [c(), to(0.375), c(), to(0.5), c(), c()]),
        case(4, 3.0, [c(4), to(3), c(4), to(5.875), c(), to(6), c(5), c(4)]),
        case(-1, 2.0, [c()]), case(2, 0.0, [c()]), case(2, -1.0, [c()]),
        case(2, 10.0, [call(0), r, to(10), call(1), to(10.5), call(2), to(20.5), call(3), r], P),
        case(3, 6.0, [call(3), to(6), call(0), to(7), call(1), to(8), call(2), c(), to(13), call(0)], P),
        case(5, 2.0, [call(3), call(1), to(5), call(0), r, call(2), to(7), call(2), call(0)], P),
    ]


def gen_c10(rng, n):
    mx, w = rng.choice([0, 1, 1, 2, 2, 3, 3, 4, 5, 8]), rng.choice([0.5, 1.0, 2.0, 4.0, 8.0, 10.0])
    pols = []
    if rng.random() < 0.45:
        for _ in range(rng.randint(2, 3)):
            pols.append({"kind": rng.choice(["RetryPolicy", "AsyncRetryPolicy", "Retry", "AsyncRetry"]),
                         "method": rng.choice(["execute", "execute", "call"]), "max_attempts": rng.randint(2, 5),
                         "delay": rng.choice([0.0, 0.0, 0.125, 0.5, w / 2, w])})
    m, now, steps = BudgetModel(mx, w), 1000.0, []
    for _ in range(rng.randint(6, 40)):
        r = rng.random()
        if r < 0.4:
            steps.append(["consume", rng.choice([1, 1, 1, 1, 2, 3, max(mx, 1)])])
            m.grant(now, steps[-1][1])
        elif r < 0.52:
            steps.append(["remaining"])
        elif r < 0.65 and pols:
            steps.append(["call", rng.randrange(len(pols))])
            now = m.call(now, pols[steps[-1][1]])[2]
        else:                                                   # clock step, preferably onto grant_time + window_s
            targets = [now + d for d in (0.0, 0.125, 0.5, 1.0, w / 2, w - 0.125, w, w + 0.125)]
            live = [t for t, _ in m.grants if now - t < w]
            if live:
                targets += [min(live) + w] * 5 + [rng.choice(live) + w] * 3 + [min(live) + w - 0.125, max(live) + w]
            now = max(now, rng.choice(targets))
            steps.append(["to", now])
    return {"max_retries": mx, "window_s": w, "policies": pols, "steps": steps}


# ======================================= C18 (and the retry_after_or half of C20) ====================
G = {"equal_jitter": 2, "token_backoff": Fraction(3, 2)}
CONST = ("const3", "constctx")


def exp_cap(base, g, attempt, max_s):
    """min(max_s, base * g**attempt), exactly"""
    if base == 0:
        return 0.0
    if math.log2(base) + attempt * math.log2(g) > math.log2(max_s) + 2:
        return max_s
    c = Fraction(base) * Fraction(g) ** attempt
    return max_s if c >= Fraction(max_s) else float(c)


def check_builtin(name, base, max_s, attempt, v, obs):
    """envelope of one value of a built-in strategy"""
    if not isinstance(v, (int, float)) or not math.isfinite(v):
        raise Violation(name + " returns a finite delay", obs)
    if name == "decorrelated_jitter":
        if not (0.0 <= v <= max_s):
            raise Violation("decorrelated_jitter returns a finite value in [0, max_s]", obs)
        return
    cap = obs["cap"] = exp_cap(base, G[name], attempt, max_s)
    if not (cap / 2 * (1 - REL) <= v <= cap * (1 + REL)):
        raise Violation(name + " returns a value in [cap/2, cap] with cap = min(max_s, base_s * g^attempt)", obs)


class Spy:
    """a fallback strategy (legacy 3-argument or context style) whose returned values are recorded"""
    def __init__(self, spec):
        self.seen = []
        inner = None if spec["kind"] in CONST else getattr(R.strategies, spec["kind"])(spec["base_s"], spec["max_s"])

        def value(attempt, klass, prev):
            self.seen.append(dec(spec["value"]) if inner is None else inner(attempt, klass, prev))
            return self.seen[-1]
        if spec["kind"] == "constctx":
            self.fn = lambda ctx: value(ctx.attempt, ctx.klass, ctx.prev_sleep_s)
        else:
            self.fn = lambda attempt, klass, prev_sleep_s: value(attempt, klass, prev_sleep_s)


def mkctx(attempt, prev, remaining=None, hint=None, klass="TRANSIENT"):
    cl = R.Classification(klass=R.ErrorClass[klass], retry_after_s=hint)
    return R.strategies.BackoffContext(attempt=attempt, classification=cl, prev_sleep_s=prev, remaining_s=remaining, cause="exception")


def check_retry_after_or(fb_spec, jitter, hint, remaining, draw, attempt=1, prev=None):
    """one retry_after_or computation on a given hint (None = no hint): totality, deadline cap and the C20 band"""
    spy = Spy(fb_spec)
    obs = {"fallback": fb_spec, "jitter_s": jitter, "hint": show(hint), "remaining_s": remaining, "draw": draw}
    how, v = lib(R.strategies.retry_after_or, spy.fn, jitter_s=jitter)
    if how == "ok":
        with Draw(draw):
            how, v = lib(v, mkctx(attempt, prev, remaining, hint, "RATE_LIMIT"))
    obs.update(returned=show(v), fallback_returned=[show(x) for x in spy.seen])
    if how == "raise":
        raise Violation("retry_after_or never raises", obs)
    if not isinstance(v, (int, float)) or not math.isfinite(v) or v < 0:
        raise Violation("retry_after_or returns a finite non-negative delay", obs)
    if remaining is not None and v > remaining:
        raise Violation("retry_after_or returns a delay no larger than the remaining deadline", obs)
    finite = hint is not None and math.isfinite(hint)
    if (len(spy.seen) == 1) != (not finite):
        raise Violation("the fallback strategy is used iff there is no finite Retry-After hint", obs)
    cap = (lambda x: x) if remaining is None else (lambda x: min(x, remaining))
    if finite:
        lo, hi = obs["band"] = [cap(max(0.0, hint)), cap(max(0.0, hint) + max(0.0, jitter))]
        if not (lo * (1 - REL) <= v <= hi * (1 + REL)):
            raise Violation("waits at least the hinted time and at most the hint plus jitter_s, except where the "
                            "remaining deadline is smaller", obs)
    elif isinstance(spy.seen[0], (int, float)) and math.isfinite(spy.seen[0]):
        want = cap(max(0.0, spy.seen[0]))
        if abs(v - want) > REL * max(1.0, want):
            raise Violation("without a finite hint the fallback's delay is used (clamped to [0, remaining])", obs)


def run_adaptive(case):
    clk, spy, fb = Clock(50.0), Spy(case["fallback"]), case["fallback"]
    lo_m, hi_m = case["min_multiplier"], case["max_multiplier"]
    how, ad = lib(R.strategies.adaptive, spy.fn, window_s=case["window_s"], target_success=case["target_success"],
                  min_multiplier=lo_m, max_multiplier=hi_m, clock=clk)
    if how == "raise":
        raise Violation("adaptive() accepts every valid parameterisation", {"returned": ad})
    for i, st in enumerate(case["steps"]):
        if st[0] == "adv":
            clk.t += st[1]
            continue
        del spy.seen[:]
        if st[0] in ("ok", "fail"):
            how, v = lib(ad.record_success) if st[0] == "ok" else lib(ad.record_failure, R.ErrorClass.TRANSIENT)
        else:
            with Draw(st[2]):
                how, v = lib(ad, mkctx(st[1], dec(st[3]) if len(st) > 3 else None))
        obs = {"step": i, "op": st, "t": clk.t, "history": case["steps"][max(0, i - 8):i], "returned": show(v),
               "fallback_returned": [show(x) for x in spy.seen], "multipliers": [lo_m, hi_m]}
        if how == "raise":
            raise Violation("adaptive() never raises, whatever success/failure history it was fed", obs)
        if st[0] != "call":
            continue
        if len(spy.seen) != 1:
            raise Violation("adaptive() returns its fallback's value (one consultation), scaled", obs)
        fv = spy.seen[0]
        if fb["kind"] not in CONST:
            check_builtin(fb["kind"], fb["base_s"], fb["max_s"], st[1], fv, dict(obs, inner=True))
        if not isinstance(v, (int, float)) or math.isnan(v) or not (fv * lo_m * (1 - REL) <= v <= fv * hi_m * (1 + REL)):
            raise Violation("adaptive() returns its fallback's value scaled by a factor within [min_multiplier, max_multiplier]", obs)
        if v < fv:
            raise Violation("adaptive() is never below a non-negative fallback", obs)


def run_c18(case):
    name = case["strategy"]
    if name == "adaptive":
        return run_adaptive(case)
    if name == "retry_after_or":
        return check_retry_after_or(case["fallback"], case["jitter_s"], dec(case["hint"]), dec(case["remaining"]), case["draw"],
                                    case.get("attempt", 1), dec(case.get("prev")))
    base, mx = case["base_s"], case["max_s"]
    how, f = lib(getattr(R.strategies, name), base, mx)
    if how == "raise":
        raise Violation(name + " accepts every 0 <= base_s <= max_s", {"returned": f})
    for call in case["calls"]:                                 # several calls on ONE strategy object
        prev = dec(call["prev"])
        with Draw(call["draw"]):
            how, v = lib(f, call["attempt"], R.ErrorClass.TRANSIENT, prev)
        obs = {"base_s": base, "max_s": mx, "attempt": call["attempt"], "prev": show(prev), "draw": call["draw"], "returned": show(v)}
        if how == "raise":
            raise Violation(name + " never raises, whatever the attempt number and random draw", obs)
        check_builtin(name, base, mx, call["attempt"], v, obs)


ATTEMPTS = [1, 2, 3, 5, 7, 8, 10, 30, 64, 255, 256, 257, 512, 1000, 1022, 1023, 1024, 1025, 1074, 1075, 1100, 1750, 1751, 1755,
            1760, 2048, 4096, 10 ** 4, 10 ** 6, 10 ** 9, 10 ** 12]
PREVS = [None, 0, 0.0, 1e-9, 0.1, 0.25, 1.0, 10.0, 30.0, 1e6, 1e300, 1e308, F(INF)]
PARAMS = [(0.25, 30.0), (0.25, 20.0), (0.0, 0.0), (0.0, 5.0), (1.0, 1.0), (30.0, 30.0), (1e-300, 1e-3), (1e-9, 1e308), (0.5, 1e300),
          (1e-300, 1e308), (3.0, 1e6), (1e-3, 1.0), (7.0, 8.0)]
BUILTINS = ["equal_jitter", "token_backoff", "decorrelated_jitter"]


def gen_fallback(rng, odd=False):
    k = rng.choice(["const3", "constctx", "const3"] + BUILTINS)
    if k in CONST:
        return {"kind": k, "value": rng.choice([0.0, 0.5, 2.0, 1e-9, 1e6, 1e300] + ([F(INF), F(NAN), -1.0, F(-INF)] if odd else []))}
    base, mx = rng.choice(PARAMS[:7])
    return {"kind": k, "base_s": base, "max_s": mx}


def gen_adaptive(rng, length=25):
    w, lo = rng.choice([0.5, 1.0, 10.0, 60.0]), rng.choice([1.0, 1.0, 1.5, 3.0])
    case = {"strategy": "adaptive", "fallback": gen_fallback(rng), "window_s": w, "target_success": rng.choice([0.9, 0.5, 1.0, 0.01, 0.999]),
            "min_multiplier": lo, "max_multiplier": rng.choice([lo, lo + 0.5, 5.0, 100.0]), "steps": []}
    for _ in range(rng.randint(2, length)):                   # events age out BETWEEN record calls and strategy calls
        r = rng.random()
        case["steps"].append([rng.choice(["ok", "fail", "fail"])] if r < 0.3 else
                             ["adv", rng.choice([0.0, 0.125, w / 2, w - 0.125, w, w + 0.125, 2 * w, 10 * w])] if r < 0.55 else
                             ["call", rng.choice(ATTEMPTS), gen_draw(rng), rng.choice(PREVS)])
    return case


def gen_rao(rng):
    hints = [None, 0, 0.0, -0.0, 1e-9, 0.5, 1.0, 2, 5.0, 60.0, 86400.0, 1e9, 1e300, 1e308, -1.0, -1e9, F(INF), F(-INF), F(NAN)]
    return {"strategy": "retry_after_or", "fallback": gen_fallback(rng, odd=True), "jitter_s": rng.choice([0.25, 0.0, 1.0, 1e-6, 30.0, -1.0]),
            "hint": rng.choice(hints), "remaining": rng.choice([None, None, 0.0, 1e-3, 0.25, 1.0, 5.0, 59.0, 3600.0, 1e12]),
            "draw": gen_draw(rng), "attempt": rng.choice(ATTEMPTS), "prev": rng.choice(PREVS)}


def battery_c18():
    out, rng = [], random.Random(18)
    for name in BUILTINS:
        for base, mx in PARAMS:
            calls = [{"attempt": a, "prev": p, "draw": d} for a in ATTEMPTS for p, d in ((None, "low"), (1.0, "high"))]
            calls += [{"attempt": 3, "prev": p, "draw": d} for p in PREVS for d in ("low", "high", "mid", "near1")]
            out.append({"strategy": name, "base_s": base, "max_s": mx, "calls": calls})
    for w in (1.0, 60.0):
        for fb in ({"kind": "const3", "value": 2.0}, {"kind": "constctx", "value": 0.5}, {"kind": "equal_jitter", "base_s": 0.25, "max_s": 30.0}):
            for hist in ([["call", 1, "mid"]], [["fail"], ["adv", w + 1], ["call", 2, "low"]], [["ok"], ["adv", w], ["call", 1024, "high"]],
                         [["fail"], ["fail"], ["ok"], ["adv", w - 0.125], ["call", 1, "mid"], ["adv", 0.125], ["call", 1, "mid"], ["adv", 9 * w], ["call", 3, "mid"]],
                         [["ok"]] * 9 + [["fail"], ["call", 5, "high"], ["fail"], ["call", 5, "low"]]):
                out.append({"strategy": "adaptive", "fallback": fb, "window_s": w, "target_success": 0.9, "min_multiplier": 1.0,
                            "max_multiplier": 5.0, "steps": hist})
    return out + [gen_rao(rng) for _ in range(300)] + [gen_adaptive(rng, 6) for _ in range(100)]


def gen_c18(rng, n):
    r = rng.random()
    if r < 0.55:
        return gen_adaptive(rng) if r < 0.3 else gen_rao(rng)
    base, mx = rng.choice(PARAMS)
    if rng.random() < 0.4:
        mx = rng.choice([1e-3, 1.0, 30.0, 1e4, 1e100, 1e308])
        base = mx * rng.choice([0.0, 1.0, 0.5, 1e-3, 1e-12, rng.random()])
    att = lambda: rng.choice(ATTEMPTS + [rng.randint(1, 40), rng.randint(1000, 1100), rng.randint(1, 4000)] * 6)
    return {"strategy": rng.choice(BUILTINS), "base_s": base, "max_s": mx,
            "calls": [{"attempt": att(), "prev": rng.choice(PREVS), "draw": gen_draw(rng)} for _ in range(rng.randint(1, 6))]}


# ======================================================= C19 =========================================
MARKERS = {"TimeoutError": "TRANSIENT", "PermanentError": "PERMANENT", "RateLimitError": "RATE_LIMIT",
           "ConcurrencyError": "CONCURRENCY", "ServerError": "SERVER_ERROR"}
OPTIONAL = ["aiohttp", "grpc", "boto3", "redis", "urllib3"]
CORE = ["default", "strict", "http", "sqlstate", "pyodbc"]
ALL_CLASSES = {"AUTH", "PERMISSION", "PERMANENT", "CONCURRENCY", "RATE_LIMIT", "SERVER_ERROR", "TRANSIENT", "UNKNOWN"}


def base_class(name):
    return getattr(R.errors, name, None) or getattr(builtins, name)


def classifier(which):
    return getattr(R if which in ("default", "strict") else R.extras, which + "_classifier")


def int_table(c, with_422):
    """the documented integer statuses (422 only in default_classifier's own table)"""
    for cond, k in ((c == 401, "AUTH"), (c == 403, "PERMISSION"), (c in (400, 404) or (with_422 and c == 422), "PERMANENT"),
                    (c == 409, "CONCURRENCY"), (c == 408, "TRANSIENT"), (c == 429, "RATE_LIMIT"), (500 <= c <= 599, "SERVER_ERROR")):
        if cond:
            return k
    return None


def name_classes(name):
    n = name.lower()
    return ({"AUTH"} if "auth" in n or "unauthoriz" in n or "credential" in n else set()) | \
           ({"PERMISSION"} if "forbid" in n or "permission" in n else set()) | \
           ({"TRANSIENT"} if "timeout" in n or "connection" in n else set())


def sql_table(code):
    if code in ("40001", "40P01"):
        return "CONCURRENCY"
    if code in ("HYT00", "HYT01", "08S01") or code.startswith("08"):
        return "TRANSIENT"
    return "AUTH" if code.startswith("28") else "PERMANENT" if code in ("42000", "42P01") else "UNKNOWN"


def expected_class(which, inst, attrs):
    """set of acceptable ErrorClass names for classifier `which` on this exception"""
    marks = {k for b, k in MARKERS.items() if isinstance(inst, base_class(b))}
    get = attrs.get

    def plain(heuristics):
        if marks:
            return marks                                  # several markers at once: the statement ranks none of them
        code = get("status") if get("status") else get("code")
        hit = int_table(code, True) if isinstance(code, int) else None
        return {hit} if hit else (name_classes(type(inst).__name__) if heuristics else None) or {"UNKNOWN"}
    if which == "http":
        st = next((get(a) for a in ("status", "status_code", "code") if isinstance(get(a), int)), None)
        if st is None:
            st = next((a for a in inst.args if isinstance(a, int) and 100 <= a <= 599), None)
        if st is not None:
            return {int_table(st, False) or "UNKNOWN"} | marks | ({"PERMANENT"} if st == 422 else set())
    elif which in ("sqlstate", "pyodbc"):
        v = get("sqlstate")
        if not v:
            rx = r"\[([0-9A-Z]{5})\]" if which == "pyodbc" else r"\b([0-9A-Z]{5})\b"
            v = next((mm.group(1) for mm in (re.search(rx, a) for a in inst.args if isinstance(a, str)) if mm), None)
        if v is None and which == "pyodbc":
            return {"UNKNOWN"} | marks
        if v is not None:
            try:
                code = str(v)
            except ValueError:        # CPython refuses to print the int: not a SQLSTATE; any class will do
                return ALL_CLASSES
            return {sql_table(code)} | marks | (set() if re.fullmatch("[0-9A-Z]{5}", code) else {"UNKNOWN"})
    return plain(which != "strict")


def run_c19(case):
    try:
        cls = type(str(case["name"]), tuple(base_class(b) for b in case["bases"]), {})
    except TypeError:                 # incompatible bases
        return
    insts = []
    for spec in case["instances"]:
        inst, attrs = cls(*dec(spec.get("args", []))), {a: dec(v) for a, v in spec.get("attrs", {}).items()}
        for a, v in attrs.items():
            setattr(inst, a, v)
        insts.append((inst, attrs))
    for n, (which, i) in enumerate(case["seq"]):
        inst, attrs = insts[i]
        how, got = lib(classifier(which), inst)
        want = expected_class(which, inst, attrs)
        obs = {"call": n, "classifier": which, "instance": i, "bases": case["bases"], "name": case["name"],
               "attrs": {a: show(v) for a, v in attrs.items()}, "args": [show(a) for a in inst.args],
               "returned": got if how == "raise" else getattr(got, "name", show(got)), "acceptable": sorted(want),
               "earlier_calls": case["seq"][:n]}
        if how == "raise":
            raise Violation("classifiers never raise, whatever the exception's type, args and attributes hold", obs)
        if not isinstance(got, R.ErrorClass):
            raise Violation("classifiers return an ErrorClass for every exception object", obs)
        if got.name not in want:
            by_name = which == "strict" and got.name in expected_class("default", inst, attrs)
            raise Violation("strict_classifier never looks at names" if by_name else "markers win over numeric status/code, which win "
                            "over name heuristics; every integer status / SQLSTATE maps as documented", obs)
        if which in OPTIONAL:
            how, ref = lib(R.default_classifier, inst)
            if how == "ok" and ref is not got:
                obs["default_classifier"] = getattr(ref, "name", show(ref))
                raise Violation("each optional-library classifier equals default_classifier when its library is absent", obs)


BIG = {"$": "bigint", "digits": 5000}
VALUES = [None, True, False, 0, 1, -1, 99, 100, 200, 400, 401, 403, 404, 408, 409, 418, 422, 429, 499, 500, 501, 503, 509, 511, 512, 550,
          598, 599, 600, 1000, -500, 40001, 8001, 28000, BIG, {"$": "bigint", "digits": 5000, "neg": True}, {"$": "bigint", "digits": 4299},
          {"$": "bigint", "digits": 4300}, 0.0, 1.5, 401.0, 429.0, 500.0, 503.5, 1e308, F(NAN), F(INF), F(-INF), "", "500", "401", "429",
          "x", "40001", "40P01", "HYT00", "HYT01", "08S01", "08001", "08", "28000", "28P01", "28", "42000", "42P01", "42S02", "XX000", "hyt00",
          "400011", {"$": "bytes", "v": ""}, {"$": "bytes", "v": "500"}, {"$": "bytes", "v": "40001"}, {"$": "bytearray", "v": "429"}, [], [500],
          [401, 403], ["40001"], [BIG], {}, {"a": 1}, {"status": 500}, {"$": "tuple", "v": []}, {"$": "tuple", "v": [500]}, {"$": "set", "v": [500]},
          {"$": "set", "v": []}, {"$": "object"}, [[500]], {"k": [BIG]}]
ARGV = [[], [500], [503, "boom"], ["boom", 599], [99, 429], [600, 509], [True, 404], [401.0], ["500"], [BIG, 512], ["40001 serialization failure"],
        ["[40001] deadlock"], ["08S01", "[08S01] link down"], ["[HYT00] [Microsoft][ODBC] timeout"], ["28000 login failed"], ["[42000] syntax"],
        ["lower case words only"], ["ERROR [40001]"], [None, {"$": "object"}, ["x"]], [{"$": "bytes", "v": "[40001]"}], ["[40P01]", 408],
        [F(NAN), 598], ["42P01 missing", "40001 later"], [5, "x [28P01] y"]]
NAMES = ["Boom", "X", "AuthError", "UnauthorizedAccess", "BadCredentials", "ForbiddenThing", "PermissionDenied", "ReadTimeout", "ConnectionReset",
         "AUTHFAIL", "AuthTimeoutError", "ForbiddenConnection", "MyTimeOut", "Error", "HttpError", "author", "Perm"]
BASES = [["Exception"]] * 6 + [["ValueError"], ["OSError"], ["ConnectionError"], ["ConnectionError"], ["TimeoutError"], ["PermanentError"],
                                ["RateLimitError"], ["ConcurrencyError"], ["ServerError"], ["KeyError"], ["PermanentError", "RateLimitError"],
                                ["ServerError", "TimeoutError"], ["ConcurrencyError", "ValueError"]]
ATTRS = ["status", "status_code", "code", "sqlstate"]


def battery_c19():
    out = []
    for name in ("Boom", "AuthTimeoutError"):             # every value in every attribute, through all classifiers
        for attr in ATTRS:
            for i, v in enumerate(VALUES):
                seq = CORE + [OPTIONAL[i % 5]] if i % 2 else ["strict", "http", OPTIONAL[i % 5], "default", "pyodbc", "sqlstate"]
                out.append({"bases": ["Exception"], "name": name, "instances": [{"attrs": {attr: v}, "args": []}], "seq": [[w, 0] for w in seq]})
    for i, args in enumerate(ARGV):
        for bases in (["Exception"], ["ConnectionError"], ["RateLimitError"]):
            out.append({"bases": bases, "name": NAMES[i % len(NAMES)], "seq": [[w, j] for w in CORE + OPTIONAL for j in (0, 1)],
                        "instances": [{"attrs": {}, "args": args}, {"attrs": {"status": 0, "code": 503}, "args": args}]})
    for name in NAMES:                                    # one class through default and strict in both orders, repeatedly
        for seq in (["default", "strict", "default", "strict"], ["strict", "default", "strict"], ["http", "strict", "redis", "strict", "default"]):
            out.append({"bases": ["Exception"], "name": name, "seq": [[w, j] for j in (0, 1, 0, 2) for w in seq],
                        "instances": [{"attrs": {}, "args": []}, {"attrs": {"status": 404}, "args": []}, {"attrs": {"code": "n/a"}, "args": []}]})
    return out


def gen_c19(rng, n):
    insts = [{"attrs": {a: rng.choice(VALUES) for a in ATTRS if rng.random() < 0.45}, "args": rng.choice(ARGV) if rng.random() < 0.5 else []}
             for _ in range(rng.randint(1, 3))]
    seq = [[rng.choice(CORE * 3 + OPTIONAL), rng.randrange(len(insts))] for _ in range(rng.randint(2, 9))]
    seq += [list(rng.choice(seq))]                        # the same instance through the same classifier twice
    name = rng.choice(NAMES) if rng.random() < 0.7 else rng.choice(NAMES) + rng.choice(["", "Error", "Timeout", "2", "Auth"])
    return {"bases": rng.choice(BASES), "name": name, "instances": insts, "seq": seq}


# ======================================================= C20 =========================================
class Wall:
    """fake wall clock: every reading is recorded and advances it by `tick`"""
    def __init__(self, t, tick):
        self.t, self.tick, self.reads = t, tick, []

    def read(self):
        self.reads.append(self.t)
        self.t += self.tick
        return self.reads[-1]

    def span(self, D):
        """[lo, hi] of `time until D, clamped at 0` over the readings made so far"""
        return max(0.0, D - max(self.reads)), max(0.0, D - min(self.reads))


class _DTMeta(type):
    def __instancecheck__(cls, obj):
        return isinstance(obj, datetime)


class Patched:
    """while active, time.time and every module-level `datetime` name inside redress read the fake wall clock"""
    def __init__(self, wall):
        self.wall = wall

    def __enter__(self):
        wall = self.wall

        class FakeDT(datetime, metaclass=_DTMeta):
            now = classmethod(lambda cls, tz=None: datetime.fromtimestamp(wall.read(), tz))
            utcnow = classmethod(lambda cls: datetime.fromtimestamp(wall.read(), timezone.utc).replace(tzinfo=None))
        real_mod = sys.modules["datetime"]
        shim = types.ModuleType("datetime")
        shim.__dict__.update({k: v for k, v in vars(real_mod).items() if not k.startswith("__")}, datetime=FakeDT)
        self.undo = [(time, "time", time.time)]
        time.time = wall.read
        for name, mod in list(sys.modules.items()):
            cur = vars(mod).get("datetime") if name.split(".")[0] == "redress" and mod is not None else None
            if cur is datetime or cur is real_mod:
                self.undo.append((mod, "datetime", cur))
                setattr(mod, "datetime", FakeDT if cur is datetime else shim)

    def __exit__(self, *exc):
        for obj, name, old in self.undo:
            setattr(obj, name, old)


class GetOnly:
    """header object that is no Mapping: a (case-sensitive) get() and, on request, items()"""
    def __init__(self, d, with_items=False):
        self.get = d.get
        if with_items:
            self.items = d.items


class CIMap(Mapping):
    """case-insensitive mapping, as HTTP libraries provide"""
    def __init__(self, d):
        self._d = {k.lower(): (k, v) for k, v in d.items()}

    def __getitem__(self, k):
        return self._d[k.lower()][1]

    def __iter__(self):
        return (k for k, _ in self._d.values())

    def __len__(self):
        return len(self._d)


def make_headers(shape, key, value, extra):
    d = dict([("Content-Type", "text/plain"), (key, value), ("X-Request-Id", "7")] if extra else [(key, value)])
    return {"dict": lambda: d, "pairs": lambda: [[k, v] for k, v in d.items()], "tuples": lambda: tuple(d.items()),
            "getonly": lambda: GetOnly(d), "getitems": lambda: GetOnly(d, True), "cimap": lambda: CIMap(d)}[shape]()


def date_string(spec, wall0):
    """(HTTP-date text, its instant D in epoch seconds); offset_s is relative to the start of the fake wall clock"""
    D = spec["epoch"] if "epoch" in spec else wall0 + spec["offset_s"]
    fmt, hours = spec.get("fmt", "gmt"), {"+0000": 0, "+0530": 5.5, "-0800": -8}
    try:
        local = datetime.fromtimestamp(D, timezone(timedelta(hours=hours.get(fmt, 0))))
    except (OverflowError, ValueError):
        fmt = "gmt"
    utc = datetime.fromtimestamp(D, timezone.utc)
    s = format_datetime(utc, usegmt=True) if fmt == "gmt" else format_datetime(utc.replace(tzinfo=None) if fmt == "naive" else local)
    return spec.get("pad", "") + s + spec.get("pad", ""), D


def hint_alternatives(value, is_header):
    """acceptable hints for a non-date value: list of None / number; 'any' = only the generic clause applies"""
    if isinstance(value, str):
        raw = value.strip()
        if re.fullmatch(r"-?[0-9]+", raw) and len(raw) <= 4300:
            n = int(raw)
            return [None] if abs(n) >= 2 ** 1024 else [0.0, None] if n < 0 else [float(n)]
        if re.fullmatch(r"-?[0-9]+", raw):                   # longer than CPython's int() accepts
            return [None] if len(raw.lstrip("-").lstrip("0")) > 400 else "any"
        try:
            parsedate_to_datetime(raw)
            return "any"                                     # some other date spelling
        except (TypeError, ValueError, IndexError, OverflowError):
            pass
        odd = re.fullmatch(r"\+[0-9]+|[0-9_]+|[0-9]*\.[0-9]+|[0-9]+\.[0-9]*|[0-9.]+[eE][-+]?[0-9]+", raw) or not raw.isascii()
        return "any" if odd else [None]                      # number-like spellings the statement does not settle / garbage
    if value is None:
        return [None]
    if isinstance(value, bool) or not isinstance(value, (int, float)):
        return "any"
    if isinstance(value, float) and (is_header or not math.isfinite(value)):
        return "any" if is_header or math.isnan(value) else [None, max(0.0, value)]
    return [None] if abs(value) >= 2 ** 1024 else [0.0, None] if value < 0 else [float(value)]


def run_c20(case):
    real0, p0 = time.time(), time.perf_counter()
    wall0, w, status = int(real0) + 10 ** 6, case.get("wall") or {}, case.get("status", 429)   # fake wall clock: far from the real one
    wall = Wall(float(wall0), w.get("tick", 0.25))
    val, D = case["value"], None
    value, D = date_string(val, wall0) if isinstance(val, dict) and val.get("$") == "date" else (dec(val), None)
    exc = type("Http429", (Exception,), {})("too many requests")
    if case.get("status_via", "status") == "args":
        exc.args = (status,)
    else:
        setattr(exc, case.get("status_via", "status"), status)
    src, strict = case.get("source", "headers"), status == 429   # the statement does not say which statuses carry the hint
    if src == "direct":
        exc.retry_after = value
    else:
        hdrs = make_headers(case["shape"], case["key"], value, case.get("extra"))
        if src == "headers":
            exc.headers = hdrs
        else:
            exc.response = types.SimpleNamespace(headers=hdrs)
            if src == "response+empty":
                exc.headers = {}
        if case["shape"] == "getonly" and case["key"] not in ("Retry-After", "retry-after"):
            strict = False                                   # a case-sensitive get() cannot be searched
        if case.get("direct_garbage") is not None:
            exc.retry_after = dec(case["direct_garbage"])
    alts = None if D is not None else hint_alternatives(value, src != "direct")
    if not strict and alts != [None]:
        alts = "any"
    hint = None
    with Patched(wall):
        for k, gap in enumerate(w.get("gaps", [0.0])):        # time PASSES between classifications of the same header
            wall.t += gap
            del wall.reads[:]
            how, got = lib(R.extras.http_retry_after_classifier, exc)
            obs = {"call": k, "value": show(value), "source": src, "shape": case.get("shape"), "key": case.get("key"),
                   "returned": show(got), "wall_clock_readings": [x - wall0 for x in wall.reads]}
            if how == "raise":
                raise Violation("http_retry_after_classifier never raises", obs)
            if not isinstance(got, (R.ErrorClass, R.Classification)):
                raise Violation("http_retry_after_classifier yields an ErrorClass or a Classification", obs)
            klass, hint = (got, None) if isinstance(got, R.ErrorClass) else (got.klass, got.retry_after_s)
            if status == 429 and klass is not R.ErrorClass.RATE_LIMIT:
                raise Violation("status 429 is RATE_LIMIT (C19 table) also when a hint is attached", obs)
            if hint is not None and not (isinstance(hint, (int, float)) and not isinstance(hint, bool) and hint >= 0):
                raise Violation("yields either no hint or a non-negative number of seconds", obs)
            if D is not None:
                if wall.reads:
                    lo, hi = wall.span(D)
                else:                                        # the library read a clock this engine does not patch
                    lo, hi = max(0.0, D - (real0 + time.perf_counter() - p0) - 1.0), max(0.0, D - real0 + 1.0)
                obs.update(date_minus_start_s=D - wall0, acceptable=[lo, hi])
                if not (hint is not None and lo - 1e-4 <= hint <= hi + 1e-4) and (strict or hint is not None):
                    raise Violation("an HTTP-date gives the time until that date (at the moment of the call), clamped at 0", obs)
            elif alts != "any":
                obs["acceptable"] = [show(a) for a in alts]
                if not any(hint == a if a is not None and hint is not None else a is hint for a in alts):
                    raise Violation("a decimal integer n within float range gives n; garbage gives no hint", obs)
    hon = case.get("honour")
    if hon and hon.get("via", "strategy") == "strategy":
        check_retry_after_or(hon["fallback"], hon["jitter_s"], hint, dec(hon.get("remaining")), hon["draw"])
    elif hon and hint is not None and math.isfinite(hint):
        honour_via_policy(case, hon, exc, wall, D, hint)


def honour_via_policy(case, hon, exc, wall, D, hint):
    """a real policy: classifier = http_retry_after_classifier, strategy = retry_after_or(...), the sleeper is spied"""
    slept, is_async, (op, aop) = [], hon["via"] == "apolicy", failing(exc)
    MONO.t = 500.0

    def sleeper(d):
        slept.append(d)
        MONO.t += d
    del wall.reads[:]
    with Patched(wall), Draw(hon["draw"]):
        strat = R.strategies.retry_after_or(Spy(hon["fallback"]).fn, jitter_s=hon["jitter_s"])
        pol = (R.AsyncRetryPolicy if is_async else R.RetryPolicy)(classifier=R.extras.http_retry_after_classifier, strategy=strat,
                                                                  deadline_s=hon["deadline_s"], max_attempts=2, sleeper=sleeper)
        how, out = lib(drive, pol.execute(aop)) if is_async else lib(pol.execute, op)
    if how == "raise" or not slept or (D is not None and not wall.reads):
        return                                               # no wait happened (deadline): nothing to compare
    h_lo, h_hi = (hint, hint) if D is None else wall.span(D)
    lo, hi = min(h_lo, hon["deadline_s"]), min(h_hi + max(0.0, hon["jitter_s"]), hon["deadline_s"])
    if not (lo * (1 - REL) - 1e-4 <= slept[0] <= hi * (1 + REL) + 1e-4):
        raise Violation("a policy using retry_after_or waits at least the hinted time and at most the hint plus jitter_s, "
                        "except where the remaining deadline is smaller",
                        {"slept": slept, "band": [lo, hi], "jitter_s": hon["jitter_s"], "deadline_s": hon["deadline_s"],
                         "fallback": hon["fallback"], "policy": hon["via"], "value": show(case["value"])})


def DIGITS(n, d="9", pre="", post=""):
    return {"$": "digits", "d": d, "n": n, "pre": pre, "post": post}


STR_VALUES = ["0", "1", "5", "120", "00", "007", " 7 ", "\t30\r\n", "-0", "-5", "-120", "+5", "+0", "1.5", "0.0", ".5", "1e3", "1_000", "5 0", "5s", "",
              " ", "-", "+", "--5", "0x10", "inf", "nan", "None", "soon", "٣", "12:00", "2015-10-21", "Wed, 21 Oct", "Wed, 99 Oct 2015 07:28:00 GMT",
              "Fri, 31 Dec 9999 23:59:59 -2359", DIGITS(18), DIGITS(308, "1"), DIGITS(309), DIGITS(400), DIGITS(4300), DIGITS(4301), DIGITS(6000),
              DIGITS(6000, "9", "-"), DIGITS(6000, "0", "", "5"), DIGITS(310, "9", "-"), DIGITS(5000, "0")]
NUM_VALUES = [0, 1, 5, 120, -3, True, False, 0.0, 0.5, 2.5, -1.5, 1e308, F(INF), F(-INF), F(NAN), {"$": "bigint", "digits": 400}, BIG,
              {"$": "bigint", "digits": 400, "neg": True}, None, [], ["5"], {"$": "bytes", "v": "5"}, {"$": "object"}, {"a": 1}]
EPOCH_9999 = 253402300799
DATES = [{"offset_s": o} for o in (-1, 0, 1, 2, 59, 3600, 86399, 86400, 86401, 2 * 86400 + 7, 30 * 86400, -3600, -86399, -86400, -3 * 86400 - 5,
                                   -400 * 86400)] + [{"epoch": 0}, {"epoch": 86400 * 365}, {"epoch": EPOCH_9999}, {"epoch": EPOCH_9999 - 86400}]
FMTS = ["gmt", "+0000", "+0530", "-0800", "naive"]
SHAPES = ["dict", "pairs", "tuples", "getonly", "getitems", "cimap"]
KEYS = ["Retry-After", "retry-after", "RETRY-AFTER", "Retry-after", "rEtRy-AfTeR"]
VIAS = ["status", "status", "status_code", "code", "args"]


def c20_case(value, **kw):
    return dict({"value": value, "source": "headers", "shape": "dict", "key": "Retry-After", "status": 429, "status_via": "status"}, **kw)


def gen_honour(rng):
    fb = gen_fallback(rng, odd=True) if rng.random() < 0.2 else \
        {"kind": rng.choice(CONST), "value": rng.choice([0.0, 0.5, 7.0, 100.0, 1e6])}
    return {"via": rng.choice(["strategy", "strategy", "policy", "apolicy"]), "fallback": fb, "draw": gen_draw(rng),
            "jitter_s": rng.choice([0.0, 0.25, 0.25, 1.0, 1e-6, 30.0]), "remaining": rng.choice([None, 0.0, 0.1, 1.0, 5.0, 3600.0, 1e9]),
            "deadline_s": rng.choice([0.5, 10.0, 3600.0, 1e7])}


def battery_c20():
    rng, out = random.Random(20), []
    for v in STR_VALUES:
        out += [c20_case(v, honour=gen_honour(rng)), c20_case(v, source="direct")]
    for v in NUM_VALUES:
        out += [c20_case(v, source="direct", honour=gen_honour(rng)), c20_case(v, shape=rng.choice(SHAPES))]
    for d in DATES:
        for fmt in FMTS:
            out.append(c20_case(dict(d, **{"$": "date", "fmt": fmt}), wall={"tick": 0.25, "gaps": [0.0, 10.0, 90000.0]}, honour=gen_honour(rng)))
        out.append(c20_case(dict(d, **{"$": "date", "pad": " "}), source="direct", wall={"tick": 0.0, "gaps": [0.0, 0.5]}))
    for shape in SHAPES:
        for key in KEYS:
            for src in ("headers", "response", "response+empty"):
                out.append(c20_case("17", shape=shape, key=key, source=src, extra=True, status_via=rng.choice(VIAS)))
    for hv in ("0", "-5", 0, 0.0, {"$": "date", "offset_s": -5}):        # a hint of exactly zero is still a hint
        for via in ("strategy", "policy", "apolicy"):
            hon = {"via": via, "fallback": {"kind": "const3", "value": 7.0}, "jitter_s": 0.25, "draw": "high", "remaining": 60.0, "deadline_s": 60.0}
            out.append(c20_case(hv, source="headers" if isinstance(hv, (str, dict)) else "direct", honour=hon))
    return out


def gen_c20(rng, n):
    r = rng.random()
    if r < 0.35:
        value = dict(rng.choice(DATES), **{"$": "date", "fmt": rng.choice(FMTS + ["gmt"])})
        if rng.random() < 0.5:
            off = rng.choice([1, -1]) * rng.choice([rng.randint(0, 120), rng.randint(0, 400000), rng.randint(0, 10 ** 8)])
            value = {"$": "date", "fmt": value["fmt"], "offset_s": off}
    elif r < 0.7:
        value = rng.choice(STR_VALUES) if rng.random() < 0.7 else \
            rng.choice(["", " ", "-", "+"]) + str(rng.randint(0, 10 ** rng.randint(1, 30))) + rng.choice(["", " ", "\n"])
    else:
        value = rng.choice(NUM_VALUES)
    gaps = [0.0] + [rng.choice([0.0, 0.5, 10.0, 3600.0, 90000.0]) for _ in range(rng.randint(0, 2))]
    case = c20_case(value, source=rng.choice(["headers", "headers", "response", "response+empty", "direct"]), shape=rng.choice(SHAPES),
                    key=rng.choice(KEYS), extra=rng.random() < 0.5, status_via=rng.choice(VIAS), status=rng.choice([429] * 8 + [503, 500]),
                    wall={"tick": rng.choice([0.0, 0.25, 1.0]), "gaps": gaps})
    if rng.random() < 0.15 and case["source"] != "direct":
        case["direct_garbage"] = rng.choice(["soon", "", {"$": "object"}, [], {"$": "bigint", "digits": 400}])
    if rng.random() < 0.6:
        case["honour"] = gen_honour(rng)
    return case


# =====================================================================================================
PROPS = {"C06": (battery_c06, gen_c06, run_c06), "C07": (battery_c07, gen_c06, run_c07), "C10": (battery_c10, gen_c10, run_c10), "C18": (battery_c18, gen_c18, run_c18),
         "C19": (battery_c19, gen_c19, run_c19), "C20": (battery_c20, gen_c20, run_c20)}


def clean(x):
    if isinstance(x, dict):
        return {str(k): clean(v) for k, v in x.items()}
    if isinstance(x, (list, tuple)):
        return [clean(v) for v in x[:200]]
    plain = isinstance(x, (int, str, bool, type(None))) or (isinstance(x, float) and math.isfinite(x))
    return x if plain and not (isinstance(x, int) and abs(x) > 10 ** 300) else show(x)


def main():
    global R
    started = time.perf_counter()
    out = {"reproduced": None, "error": "no result"}
    try:
        warnings.simplefilter("ignore")
        req = json.loads(sys.stdin.read() or "{}")
        found = re.search(r"C\d\d", str(req.get("obligation") or ""))
        prop = req.get("property") or (found.group(0) if found else None)
        if prop not in PROPS:
            raise ValueError("unsupported or missing property id: %r" % (prop,))
        import redress
        import redress.extras
        import redress.strategies
        R = redress
        time.monotonic = MONO
        signal.signal(signal.SIGALRM, watchdog)
        battery, gen, run = PROPS[prop]
        rng = random.Random("%s/%s" % (req.get("seed", 0), prop))
        stop_at = started + 0.8 * float(req.get("budget_s") or 20) - 0.3
        fixed = [req["case"]] if req.get("case") else battery()
        tried, hit = 0, None
        while tried < len(fixed) or (not req.get("case") and tried < 10 ** 7 and time.perf_counter() < stop_at):
            case = fixed[tried] if tried < len(fixed) else gen(rng, tried)
            case = json.loads(json.dumps(case))           # what runs is exactly what a stored case replays
            tried += 1
            try:
                signal.setitimer(signal.ITIMER_REAL, 10.0)
                run(case)
            except Violation as v:
                hit = (case, v.observed, v.clause)
            except Stuck:
                hit = (case, {"still_running_after_s": 10}, "every operation of the property terminates")
            finally:
                signal.setitimer(signal.ITIMER_REAL, 0)
            if hit:
                break
        out = {"reproduced": hit is not None, "property": prop, "scenarios_tried": tried,
               "scenario": hit[0] if hit else None, "observed": clean(hit[1]) if hit else None,
               "violated_clause": hit[2] if hit else None}
    except BaseException as exc:  # noqa: BLE001 - never crash
        import traceback
        out = {"reproduced": None, "error": "%s: %s" % (type(exc).__name__, exc),
               "where": traceback.format_exc().strip().splitlines()[-6:]}
    print(json.dumps(out, default=str))
    sys.exit(0)


if __name__ == "__main__":
    main()
