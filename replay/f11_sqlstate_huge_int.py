"""F11 (C19): sqlstate_classifier / pyodbc_classifier must return an ErrorClass for every built-in value of the sqlstate attribute,
including an int beyond CPython's str() digit limit (and a container holding one)."""
from _common import done, payload
from redress.errors import ErrorClass
from redress.extras.pyodbc import pyodbc_classifier
from redress.extras.sqlstate import sqlstate_classifier

p = payload()
f = {"sqlstate": sqlstate_classifier, "pyodbc": pyodbc_classifier}[p.get("which", "sqlstate")]
shape = p.get("shape", "int")


class E(Exception):
    pass


e = E()
big = 10 ** 5000
e.sqlstate = {"int": big, "negative": -big, "list": [big], "tuple": (1, big)}[shape]
try:
    r = f(e)
except BaseException as ex:  # noqa
    done(True, raised=type(ex).__name__, message=str(ex)[:100], shape=shape)
done(not isinstance(r, ErrorClass), result=repr(r), shape=shape)
