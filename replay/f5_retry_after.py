"""F5 (C20): http_retry_after_classifier must never raise, whatever Retry-After value it is handed."""
from _common import done, payload
from redress.extras.http import http_retry_after_classifier

p = payload()
kind = p.get("kind", "digits")


class E(Exception):
    status = 429


e = E()
if kind == "digits":
    e.headers = {"Retry-After": "9" * int(p.get("n", 309))}
elif kind == "attr":
    e.retry_after = 10 ** 400
else:
    e.headers = {"Retry-After": "Mon, 01 Jan 99999999999999999999 00:00:00 GMT"}
try:
    r = http_retry_after_classifier(e)
except BaseException as ex:  # noqa
    done(True, raised=type(ex).__name__, message=str(ex)[:100])
done(False, result=repr(r))
