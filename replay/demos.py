"""Bounded native stand-in of last resort: the demonstration programs stored with the seeded changes (/verif/seeded/<P>-*/demo.py).
Each is an independent oracle for property P written by a sub-agent from the property statement alone, drives the public API on a
fake clock, prints PROPERTY HOLDS / PROPERTY VIOLATED and exits 0 / 1; all of them hold on the unchanged tree.  This script runs the
ones for the requested property against the tree on PYTHONPATH; a violation must reproduce twice.  Used only when the deductive check
of P is undecided on a tree (never counted as proof, never run next to a decided proof).
stdin: {"property": "Cxx", ...}; last stdout line: {"reproduced", "property", "scenarios_tried", "scenario", "observed", "violated_clause"}."""
import glob
import json
import os
import subprocess
import sys

SKIP = {"C20-e"}  # reads the real wall clock with millisecond sleeps: could flake under load


def run(path):
    try:
        r = subprocess.run([sys.executable, path], capture_output=True, text=True, timeout=240, cwd="/tmp", env=dict(os.environ))
    except subprocess.TimeoutExpired:
        return None, "timeout"
    lines = [l for l in r.stdout.strip().splitlines() if l.startswith("PROPERTY")]
    return r.returncode, (lines[0] if lines else (r.stdout.strip().splitlines() or [""])[-1])[:1500]


def main():
    try:
        req = json.loads(sys.stdin.read() or "{}")
    except Exception:
        req = {}
    prop = req.get("property")
    out = {"reproduced": False, "property": prop, "scenarios_tried": 0, "scenario": None, "observed": None, "violated_clause": None}
    root = os.path.join(os.path.dirname(os.path.dirname(os.path.abspath(__file__))), "seeded")
    for d in sorted(glob.glob(os.path.join(root, f"{prop}-*"))):
        sid = os.path.basename(d)
        demo = os.path.join(d, "demo.py")
        if sid in SKIP or not os.path.exists(demo):
            continue
        out["scenarios_tried"] += 1
        rc, msg = run(demo)
        if rc == 1 and msg.startswith("PROPERTY VIOLATED"):
            rc2, msg2 = run(demo)
            if rc2 == 1 and msg2.startswith("PROPERTY VIOLATED"):
                out.update(reproduced=True, scenario=f"seeded/{sid}/demo.py", observed=msg,
                           violated_clause=f"oracle program of {sid} (written from the statement of {prop})")
                break
    print(json.dumps(out))
    sys.exit(0)


if __name__ == "__main__":
    main()
