"""Native side of the encoder cross-check: executes scripted operations on the REAL code and prints the results.
stdin: {"cases": [{"component": ..., ...}]}  ->  stdout last line: {"results": [...]}"""
import json
import math
import random
import sys
import time


def enc(x):
    if isinstance(x, float):
        if math.isnan(x):
            return "nan"
        if math.isinf(x):
            return "inf" if x > 0 else "-inf"
        return x
    if hasattr(x, "name") and hasattr(x, "value"):
        return x.name
    if isinstance(x, (list, tuple)):
        return [enc(v) for v in x]
    return x


def dec(x):
    if x == "nan":
        return float("nan")
    if x == "inf":
        return float("inf")
    if x == "-inf":
        return float("-inf")
    if x == "hugeint":
        return 10 ** 5000
    if x == "-hugeint":
        return -(10 ** 5000)
    return x


def run_budget(c):
    from redress.budget import Budget
    clock = {"t": 0.0}
    orig = time.monotonic
    time.monotonic = lambda: clock["t"]
    out = []
    try:
        try:
            b = Budget(max_retries=c["max_retries"], window_s=c["window_s"])
        except ValueError:
            return ["ValueError"]
        for op in c["ops"]:
            clock["t"] = op["t"]
            try:
                if op["op"] == "consume":
                    r = b.consume(op["cost"]) if "cost" in op else b.consume()
                else:
                    r = b.remaining()
            except ValueError:
                r = "ValueError"
            out.append([r, list(b._events)])
    finally:
        time.monotonic = orig
    return out


def run_breaker(c):
    from redress.circuit import CircuitBreaker
    from redress.errors import ErrorClass
    clock = {"t": 0.0}
    try:
        b = CircuitBreaker(failure_threshold=c["failure_threshold"], window_s=c["window_s"], recovery_timeout_s=c["recovery_timeout_s"],
                           trip_on=None if c["trip_on"] is None else {ErrorClass[k] for k in c["trip_on"]},
                           class_thresholds=None if c["class_thresholds"] is None else {ErrorClass[k]: v for k, v in c["class_thresholds"].items()},
                           clock=lambda: clock["t"])
    except ValueError:
        return ["ValueError"]
    out = []
    for op in c["ops"]:
        clock["t"] = op["t"]
        if op["op"] == "allow":
            d = b.allow()
            r = [d.allowed, d.state.name, d.event]
        elif op["op"] == "record_success":
            r = b.record_success()
        elif op["op"] == "record_cancel":
            r = b.record_cancel()
        else:
            r = b.record_failure(ErrorClass[op["klass"]])
        out.append([r, b._state.name, b._opened_at, b._probe_in_flight, list(b._failures),
                    {k.name: list(v) for k, v in sorted(b._class_failures.items(), key=lambda kv: kv[0].name)}])
    return out


def run_strategy(c):
    from redress import strategies as S
    from redress.errors import ErrorClass
    orig = random.uniform
    random.uniform = lambda a, b: a + (b - a) * c["r"]
    try:
        try:
            f = getattr(S, c["which"])(base_s=dec(c["base_s"]), max_s=dec(c["max_s"]))
            return [enc(f(c["attempt"], ErrorClass.TRANSIENT, dec(c["prev"])))]
        except Exception as e:
            return [type(e).__name__]
    finally:
        random.uniform = orig


def mk_exc(c):
    from redress import errors
    base = {"Exception": Exception, "TimeoutError": TimeoutError, "ValueError": ValueError, "PermanentError": errors.PermanentError,
            "RateLimitError": errors.RateLimitError, "ConcurrencyError": errors.ConcurrencyError, "ServerError": errors.ServerError,
            "ConnectionError": ConnectionError}[c["base"]]
    cls = type(c["name"], (base,), {})
    e = cls(*[dec(a) for a in c["args"]])
    for k, v in c["attrs"].items():
        setattr(e, k, dec(v))
    return e


def run_classifier(c):
    from redress.classify import default_classifier, strict_classifier
    from redress.extras.http import http_classifier
    from redress.extras.pyodbc import pyodbc_classifier
    from redress.extras.sqlstate import sqlstate_classifier
    f = {"default": default_classifier, "strict": strict_classifier, "http": http_classifier, "sqlstate": sqlstate_classifier,
         "pyodbc": pyodbc_classifier}[c["which"]]
    try:
        return [f(mk_exc(c)).name]
    except Exception as e:
        return ["raises:" + type(e).__name__]


RUN = {"budget": run_budget, "breaker": run_breaker, "strategy": run_strategy, "classifier": run_classifier}


def main():
    data = json.loads(sys.stdin.read())
    res = []
    for c in data["cases"]:
        try:
            res.append(enc(RUN[c["component"]](c)))
        except Exception as e:  # noqa
            res.append(["native-error", type(e).__name__, str(e)[:200]])
    print(json.dumps({"results": res}))


if __name__ == "__main__":
    main()
