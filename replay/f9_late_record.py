"""F9 (C07): breaker records are not tied to the call that was admitted. A call admitted while the circuit was CLOSED that
finishes while another call holds the HALF_OPEN probe slot is taken for the probe:
  cancel  -> frees the slot, a second probe is admitted before the first one's result is recorded;
  success -> closes the circuit although the probe has not reported."""
import asyncio

from _common import done, payload
from redress import AsyncPolicy, CircuitBreaker, ErrorClass
from redress.errors import AbortRetryError

p = payload()
mode = p.get("mode", "cancel")
clock = {"t": 0.0}


async def main():
    b = CircuitBreaker(failure_threshold=1, window_s=100.0, recovery_timeout_s=5.0, clock=lambda: clock["t"])
    pol = AsyncPolicy(circuit_breaker=b)
    gate_a, gate_b = asyncio.Event(), asyncio.Event()

    async def op_a():
        await gate_a.wait()
        if mode == "cancel":
            raise AbortRetryError()
        return "late"

    async def op_b():
        await gate_b.wait()
        return "probe"

    ta = asyncio.ensure_future(pol.call(op_a))          # admitted while CLOSED
    await asyncio.sleep(0)
    b.record_failure(ErrorClass.TRANSIENT)               # some other call fails: circuit opens
    clock["t"] = 6.0                                      # recovery timeout elapsed
    tb = asyncio.ensure_future(pol.call(op_b))          # admitted as THE half-open probe, still in flight
    await asyncio.sleep(0)
    probe_in_flight_before = b._probe_in_flight
    gate_a.set()                                          # the old call finishes now
    try:
        await ta
    except AbortRetryError:
        pass
    state_after_a = b.state.value
    third = b.allow()                                     # must be rejected: the probe has not reported yet
    gate_b.set()
    await tb
    if mode == "cancel":
        return probe_in_flight_before and third.allowed, {"state_after_old_call": state_after_a, "second_probe_admitted": third.allowed}
    return probe_in_flight_before and state_after_a == "closed", {"state_after_old_call": state_after_a}


bad, info = asyncio.run(main())
done(bad, mode=mode, **info)
