"""Replay of a solver counter-model on the REAL code for the data components (Budget, CircuitBreaker, strategies, classifiers).
payload["model"]["__replay__"] carries the concrete input extracted from the model; the oracle below is the property statement."""
import math
import random
import time
from collections import deque

from _common import done, payload

p = payload()
rp = (p.get("model") or {}).get("__replay__")
if not rp:
    done(None, error="no __replay__ section in the counter-model")
comp = rp["component"]


def budget():
    from redress.budget import Budget
    b = Budget(max_retries=rp["max_retries"], window_s=rp["window_s"])
    b._events = deque(rp["events"])
    orig = time.monotonic
    time.monotonic = lambda: rp["now"]
    try:
        live_before = sum(1 for t in rp["events"] if rp["now"] - t < rp["window_s"])
        if rp["op"] == "consume":
            cost = rp.get("cost", 1)
            try:
                r = b.consume(cost)
            except ValueError:
                return done(cost >= 1, observed="ValueError", cost=cost, input=rp)
            should = live_before + cost <= rp["max_retries"]
            grants = list(b._events)
            over = sum(1 for t in grants if rp["now"] - t < rp["window_s"]) > rp["max_retries"]
            return done(r != should or over, observed={"granted": r, "events_after": grants}, expected_granted=should,
                        live_in_window_before=live_before, input=rp)
        r = b.remaining()
        return done(r != max(rp["max_retries"] - live_before, 0), observed=r, expected=max(rp["max_retries"] - live_before, 0), input=rp)
    finally:
        time.monotonic = orig


def breaker():
    from redress.circuit import CircuitBreaker, CircuitState
    from redress.errors import ErrorClass
    clock = {"t": rp["now"]}
    b = CircuitBreaker(failure_threshold=rp["failure_threshold"], window_s=rp["window_s"], recovery_timeout_s=rp["recovery_timeout_s"],
                       trip_on={ErrorClass[k] for k in rp["trip_on"]}, class_thresholds={ErrorClass[k]: v for k, v in rp["class_thresholds"].items()},
                       clock=lambda: clock["t"])
    b._state = CircuitState[rp["state"]]
    b._opened_at = rp["opened_at"]
    b._probe_in_flight = rp["probe"]
    b._failures = deque(rp["failures"])
    b._class_failures = {ErrorClass[k]: deque(v) for k, v in rp["buckets"].items()}
    op = rp["op"]
    if op == "record_failure":
        k = ErrorClass[rp["klass"]]
        w = rp["window_s"]
        inwin = sum(1 for t in rp["failures"] if rp["now"] - t < w) + 1
        thr_k = rp["class_thresholds"].get(rp["klass"])
        inwin_k = (sum(1 for t in rp["buckets"].get(rp["klass"], []) if rp["now"] - t < w) + 1) if thr_k is not None else None
        r = b.record_failure(k)
        if rp["state"] == "CLOSED":
            counted = rp["klass"] in rp["trip_on"] or thr_k is not None
            should_open = counted and (inwin >= rp["failure_threshold"] or (thr_k is not None and inwin_k >= thr_k))
            opened = b._state is CircuitState.OPEN
            return done(opened != should_open, observed={"state": b._state.name, "result": r}, expected_open=should_open,
                        in_window=inwin, in_window_class=inwin_k, input=rp)
        if rp["state"] == "HALF_OPEN":
            return done(not (b._state is CircuitState.OPEN and b._opened_at == rp["now"] and not b._probe_in_flight and not b._failures),
                        observed={"state": b._state.name, "opened_at": b._opened_at}, input=rp)
        return done(not (b._state is CircuitState.OPEN and b._opened_at == rp["opened_at"]), observed={"state": b._state.name}, input=rp)
    if op == "allow":
        d = b.allow()
        if rp["state"] == "CLOSED":
            exp = True
        elif rp["state"] == "OPEN":
            exp = rp["now"] - rp["opened_at"] >= rp["recovery_timeout_s"]
        else:
            exp = not rp["probe"]
        # the decision reports the breaker's state (C14: "reported with ... the breaker's state") and names the transition / rejection
        exp_event = (None if exp else "circuit_rejected") if rp["state"] != "OPEN" else ("circuit_half_open" if exp else "circuit_rejected")
        bad = d.allowed != exp or d.state is not b._state or d.event != exp_event
        return done(bad, observed={"allowed": d.allowed, "decision_state": d.state.name, "state": b._state.name, "event": d.event},
                    expected_allowed=exp, expected_event=exp_event, input=rp)
    if op == "record_success":
        b.record_success()
        exp = "CLOSED" if rp["state"] == "HALF_OPEN" else rp["state"]
        return done(b._state.name != exp or (rp["state"] == "CLOSED" and list(b._failures) != rp["failures"]),
                    observed={"state": b._state.name, "failures": list(b._failures)}, input=rp)
    if op == "record_cancel":
        b.record_cancel()
        return done(b._state.name != rp["state"] or (rp["state"] == "HALF_OPEN" and b._probe_in_flight), observed={"state": b._state.name}, input=rp)
    done(None, error="unknown op")


def strategy():
    from redress import strategies as S
    from redress.errors import ErrorClass
    orig = random.uniform
    random.uniform = lambda a, b: a + (b - a) * rp["r"]
    try:
        f = getattr(S, rp["which"])(base_s=rp["base_s"], max_s=rp["max_s"])
        prev = rp.get("prev")
        prev = {"inf": float("inf")}.get(prev, prev)
        try:
            v = f(rp["attempt"], ErrorClass.TRANSIENT, prev)
        except BaseException as e:  # noqa
            return done(True, observed="raises " + type(e).__name__, input=rp)
        if rp["which"] == "decorrelated_jitter":
            bad = not (math.isfinite(v) and 0 <= v <= rp["max_s"])
            return done(bad, observed=v, envelope=[0, rp["max_s"]], input=rp)
        g = {"equal_jitter": 2.0, "token_backoff": 1.5}[rp["which"]]
        try:
            cap = min(rp["max_s"], rp["base_s"] * g ** rp["attempt"])
        except OverflowError:
            cap = rp["max_s"] if rp["base_s"] > 0 else 0.0
        tol = 1e-9 * max(1.0, cap)
        return done(not (cap / 2 - tol <= v <= cap + tol), observed=v, envelope=[cap / 2, cap], input=rp)
    finally:
        random.uniform = orig


def classifier():
    from redress import errors
    from redress.classify import default_classifier, strict_classifier
    from redress.errors import ErrorClass
    from redress.extras.http import http_classifier
    bases = {"Exception*": Exception, "TimeoutError": TimeoutError, "ValueError": ValueError, "OSError*": OSError,
             "PermanentError": errors.PermanentError, "RateLimitError": errors.RateLimitError,
             "ConcurrencyError": errors.ConcurrencyError, "ServerError": errors.ServerError}
    base = bases.get(rp["leaf"], Exception)
    cls = type(rp["name"] or "X", (base,), {})
    e = cls.__new__(cls)
    e.args = ()
    def decode(v):
        if isinstance(v, dict) and v.get("__huge_int__"):
            return -(10 ** 5000) if v.get("negative") else 10 ** 5000
        if isinstance(v, dict) and v.get("__container_holding_huge_int__"):
            return [10 ** 5000]
        return v

    for k, v in rp["attrs"].items():
        setattr(e, k, decode(v))
    from redress.extras.pyodbc import pyodbc_classifier
    from redress.extras.sqlstate import sqlstate_classifier
    f = {"default": default_classifier, "strict": strict_classifier, "http": http_classifier, "sqlstate": sqlstate_classifier,
         "pyodbc": pyodbc_classifier}[rp["which"]]
    try:
        got = f(e)
    except BaseException as ex:  # noqa
        return done(True, observed="raises " + type(ex).__name__ + ": " + str(ex)[:80], input=rp)
    if rp["which"] in ("sqlstate", "pyodbc"):
        # only totality is replayed for these two (their table is decided by the contract, not by this oracle)
        return done(False, observed=got.name, input=rp)
    # oracle: the documented table (markers > numeric > names)
    def table():
        if isinstance(e, TimeoutError):
            return "TRANSIENT"
        for c, k in ((errors.PermanentError, "PERMANENT"), (errors.RateLimitError, "RATE_LIMIT"), (errors.ConcurrencyError, "CONCURRENCY"),
                     (errors.ServerError, "SERVER_ERROR")):
            if isinstance(e, c):
                return k
        code = rp["attrs"].get("status") or rp["attrs"].get("code")
        if isinstance(code, int):
            m = {401: "AUTH", 403: "PERMISSION", 400: "PERMANENT", 404: "PERMANENT", 422: "PERMANENT", 409: "CONCURRENCY", 408: "TRANSIENT",
                 429: "RATE_LIMIT"}
            if code in m:
                return m[code]
            if 500 <= code < 600:
                return "SERVER_ERROR"
        if rp["which"] == "default":
            n = cls.__name__.lower()
            if any(s in n for s in ("auth", "unauthoriz", "credential")):
                return "AUTH"
            if any(s in n for s in ("forbid", "permission")):
                return "PERMISSION"
            if any(s in n for s in ("timeout", "connection")):
                return "TRANSIENT"
        return "UNKNOWN"

    if rp["which"] == "http":
        return done(not isinstance(got, ErrorClass), observed=str(got), input=rp)
    exp = table()
    return done(got.name != exp, observed=got.name, expected=exp, input=rp)


{"budget": budget, "breaker": breaker, "strategy": strategy, "classifier": classifier}[comp]()
