"""F2 (C08/C09): however an admitted call ends, the breaker must have been told by the time call()/execute() returns
or raises - otherwise a HALF_OPEN probe slot stays taken forever."""
import asyncio

from _common import done, payload
from redress import AsyncPolicy, AsyncRetry, CircuitBreaker, ErrorClass, Policy, Retry
from redress.errors import CircuitOpenError

p = payload()
variant = p.get("variant", "execute-keyboardinterrupt")
clock = {"t": 0.0}
b = CircuitBreaker(failure_threshold=1, window_s=10.0, recovery_timeout_s=5.0, clock=lambda: clock["t"])
b.record_failure(ErrorClass.TRANSIENT)
clock["t"] = 6.0   # next call is the half-open probe


def boom(exc):
    def f():
        raise exc
    return f


def hook_raises(ctx):
    raise RuntimeError("hook")


def bad_classifier(e):
    raise RuntimeError("classifier")


retry = Retry(classifier=lambda e: ErrorClass.TRANSIENT, strategy=lambda ctx: 0.0, max_attempts=1)
caught = None
try:
    if variant == "execute-keyboardinterrupt":
        Policy(retry=retry, circuit_breaker=b).execute(boom(KeyboardInterrupt()))
    elif variant == "call-generatorexit":
        Policy(retry=retry, circuit_breaker=b).call(boom(GeneratorExit()))
    elif variant == "call-nested-circuitopen":
        Policy(retry=retry, circuit_breaker=b).call(boom(CircuitOpenError("open")))
    elif variant == "call-raising-classifier":
        Policy(retry=Retry(classifier=bad_classifier, strategy=lambda c: 0.0, max_attempts=1), circuit_breaker=b).call(boom(ValueError("x")))
    elif variant == "call-noretry-raising-end-hook":
        Policy(circuit_breaker=b).call(lambda: "ok", on_attempt_end=hook_raises)
    elif variant == "execute-raising-end-hook":
        Policy(retry=retry, circuit_breaker=b).execute(lambda: "ok", on_attempt_end=hook_raises)
    elif variant == "async-call-generatorexit":
        async def op():
            raise GeneratorExit()
        ar = AsyncRetry(classifier=lambda e: ErrorClass.TRANSIENT, strategy=lambda ctx: 0.0, max_attempts=1)
        asyncio.run(AsyncPolicy(retry=ar, circuit_breaker=b).call(op))
    else:
        done(False, error="unknown variant")
except BaseException as e:  # noqa
    caught = type(e).__name__
clock["t"] = 100.0   # far beyond any recovery timeout, no call outstanding
leaked = bool(b._probe_in_flight)
nxt = b.allow()
done(leaked and not nxt.allowed, variant=variant, ended_with=caught, probe_in_flight=leaked, next_call_admitted=nxt.allowed)
