"""F3 (C11/C12/C05): an error raised by the caller's strategy / sleeper / result_classifier after a
result-classified failure must propagate out of execute() exactly as it does out of call()."""
from _common import done, payload
from redress import ErrorClass, Retry

p = payload()
which = p.get("callback", "strategy")


class Boom(ValueError):
    pass


def build():
    st = {"strategy_calls": 0, "ops": 0, "raised": False}

    def strategy(ctx):
        st["strategy_calls"] += 1
        if which == "strategy" and not st["raised"]:
            st["raised"] = True
            raise Boom("strategy")
        return 0.0

    def sleeper(s):
        if which == "sleeper" and not st["raised"]:
            st["raised"] = True
            raise Boom("sleeper")

    def rc(v):
        if which == "result_classifier" and not st["raised"]:
            st["raised"] = True
            raise Boom("result_classifier")
        return ErrorClass.TRANSIENT

    def op():
        st["ops"] += 1
        return "bad"

    r = Retry(classifier=lambda e: ErrorClass.UNKNOWN, result_classifier=rc, strategy=strategy, max_attempts=3)
    return r, op, sleeper, st


r, op, sleeper, st1 = build()
call_raised = None
try:
    r.call(op, sleeper=sleeper)
except Boom as e:
    call_raised = "Boom"
except Exception as e:
    call_raised = type(e).__name__
r, op, sleeper, st2 = build()
exec_raised = None
out = None
try:
    out = r.execute(op, sleeper=sleeper)
except Boom:
    exec_raised = "Boom"
except Exception as e:
    exec_raised = type(e).__name__
bad = call_raised == "Boom" and exec_raised != "Boom"
done(bad, call=call_raised, call_stats=st1, execute=exec_raised, execute_stats=st2,
     outcome=str(out.stop_reason) if out is not None else None)
