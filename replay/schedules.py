"""Bounded native stand-in for C17 (systematic schedule exploration; written by a sub-agent from the property statement,
adapted to the replay protocol: one JSON object on stdin, last stdout line {"reproduced", "scenarios_tried", "scenario", "violated_clause"}).

C17 check: Budget and CircuitBreaker are atomic under concurrent threads.

Small concurrent programs over the public operations are executed under a
deterministic scheduler that may pre-empt a thread before every source line of
the component (bounded number of pre-emptions, all placements explored).  Every
concurrent outcome (per-thread results + a final observation of the object) must
equal the outcome of SOME sequential ordering of the same operations run on a
fresh object, and no schedule may deadlock.

Only the public API is driven.  Locks created by the component are replaced by
cooperative ones (by patching threading.Lock/RLock while the object is being
constructed) so that the scheduler stays in control when a thread blocks.
"""

import dataclasses
import enum
import itertools
import os
import sys
import threading
import time

# ----------------------------------------------------------------- fake clock
FAKE = [1000.0]
time.monotonic = lambda: FAKE[0]  # before importing the library

import redress.budget  # noqa: E402
import redress.circuit  # noqa: E402
from redress import Budget, CircuitBreaker, ErrorClass  # noqa: E402

COMPONENT_FILES = {
    os.path.abspath(redress.circuit.__file__),
    os.path.abspath(redress.budget.__file__),
}

PREEMPTION_BOUND = 2
STEP_LIMIT = 5000
TLS = threading.local()
_RealLock = threading.Lock
_RealRLock = threading.RLock


class Abort(BaseException):
    pass


class SequentialDeadlock(Exception):
    pass


# ------------------------------------------------------------ cooperative lock
class CoopLock:
    reentrant = False

    def __init__(self):
        self._held = False
        self._owner = None
        self._depth = 0

    def acquire(self, blocking=True, timeout=-1):
        me = threading.get_ident()
        if self.reentrant and self._held and self._owner == me:
            self._depth += 1
            return True
        run = getattr(TLS, "run", None)
        while self._held:
            if not blocking:
                return False
            if run is None:
                raise SequentialDeadlock("lock acquired while already held (single thread)")
            run.block(TLS.worker, self)
        self._held = True
        self._owner = me
        self._depth = 1
        return True

    def release(self):
        if not self._held:
            raise RuntimeError("release unlocked lock")
        self._depth -= 1
        if self._depth <= 0:
            self._held = False
            self._owner = None

    def locked(self):
        return self._held

    __enter__ = acquire

    def __exit__(self, *exc):
        self.release()


class CoopRLock(CoopLock):
    reentrant = True


def build(setup):
    """Run setup() with the component's locks replaced by cooperative ones."""
    threading.Lock, threading.RLock = CoopLock, CoopRLock
    try:
        return setup()
    finally:
        threading.Lock, threading.RLock = _RealLock, _RealRLock


# ------------------------------------------------------------------ scheduler
class Worker:
    def __init__(self, idx, ops):
        self.idx = idx
        self.ops = ops
        self.results = []
        self.go = threading.Event()
        self.done = False
        self.waiting = None
        self.thread = None


class Run:
    def __init__(self, obj, programs, prefix):
        self.obj = obj
        self.workers = [Worker(i, ops) for i, ops in enumerate(programs)]
        self.prefix = prefix
        self.trace = []
        self.preempts = 0
        self.steps = 0
        self.aborted = False
        self.deadlock = None
        self.all_done = threading.Event()

    def choose(self, n):
        i = len(self.trace)
        c = self.prefix[i] if i < len(self.prefix) else 0
        self.trace.append((n, c))
        return c

    def enabled(self, exclude=None):
        return [
            w
            for w in self.workers
            if not w.done and w is not exclude and (w.waiting is None or not w.waiting._held)
        ]

    def abort_all(self, why):
        self.deadlock = why
        self.aborted = True
        for w in self.workers:
            w.go.set()
        self.all_done.set()

    def transfer(self, frm, to):
        to.go.set()
        frm.go.wait()
        frm.go.clear()
        if self.aborted:
            raise Abort()

    def point(self, w):
        if self.aborted:
            raise Abort()
        self.steps += 1
        if self.steps > STEP_LIMIT:
            self.abort_all("no progress (step limit exceeded)")
            raise Abort()
        if self.preempts >= PREEMPTION_BOUND:
            return
        others = self.enabled(exclude=w)
        if others:
            c = self.choose(1 + len(others))
            if c:
                self.preempts += 1
                self.transfer(w, others[c - 1])

    def block(self, w, lock):
        if self.aborted:
            raise Abort()
        w.waiting = lock
        cands = self.enabled()
        if not cands:
            self.abort_all("deadlock: every live thread is blocked on a lock")
            raise Abort()
        c = self.choose(len(cands)) if len(cands) > 1 else 0
        self.transfer(w, cands[c])
        w.waiting = None

    def finish(self, w):
        w.done = True
        cands = self.enabled()
        if cands:
            c = self.choose(len(cands)) if len(cands) > 1 else 0
            cands[c].go.set()
        elif all(x.done for x in self.workers):
            self.all_done.set()
        else:
            self.abort_all("deadlock: every live thread is blocked on a lock")

    # -- thread body
    def body(self, w):
        w.go.wait()
        w.go.clear()
        if self.aborted:
            return
        TLS.run, TLS.worker = self, w
        run = self

        def local(frame, event, arg):
            if event == "line":
                run.point(w)
            return local

        def tracer(frame, event, arg):
            if os.path.abspath(frame.f_code.co_filename) in COMPONENT_FILES:
                return local
            return None

        try:
            sys.settrace(tracer)
            for _name, fn in w.ops:
                try:
                    r = norm(fn(self.obj))
                except Abort:
                    raise
                except Exception as e:  # noqa: BLE001
                    r = ("raised", type(e).__name__)
                w.results.append(r)
            sys.settrace(None)
        except Abort:
            sys.settrace(None)
            return
        self.finish(w)

    def execute(self):
        for w in self.workers:
            w.thread = threading.Thread(target=self.body, args=(w,), daemon=True)
            w.thread.start()
        first = self.choose(len(self.workers))
        self.workers[first].go.set()
        if not self.all_done.wait(10.0):
            self.abort_all("hang: threads did not finish within 10s")
        for w in self.workers:
            w.thread.join(2.0)
        return tuple(tuple(w.results) for w in self.workers)


def norm(v):
    if dataclasses.is_dataclass(v) and not isinstance(v, type):
        return tuple(norm(getattr(v, f.name)) for f in dataclasses.fields(v))
    if isinstance(v, enum.Enum):
        return v.value
    return v


def next_prefix(trace):
    for i in range(len(trace) - 1, -1, -1):
        n, c = trace[i]
        if c + 1 < n:
            return [t[1] for t in trace[:i]] + [c + 1]
    return None


# ------------------------------------------------------- sequential reference
def merges(programs):
    tags = [i for i, ops in enumerate(programs) for _ in ops]
    return sorted(set(itertools.permutations(tags)))


def sequential_outcomes(case):
    out = {}
    for order in merges(case["threads"]):
        FAKE[0] = 1000.0
        obj = build(case["setup"])
        pos = [0] * len(case["threads"])
        res = [[] for _ in case["threads"]]
        for t in order:
            _name, fn = case["threads"][t][pos[t]]
            pos[t] += 1
            try:
                r = norm(fn(obj))
            except SequentialDeadlock:
                raise
            except Exception as e:  # noqa: BLE001
                r = ("raised", type(e).__name__)
            res[t].append(r)
        outcome = (tuple(tuple(r) for r in res), case["observe"](obj))
        out.setdefault(outcome, order)
    return out


def check_case(case):
    """Return None if fine, else a description of the violation."""
    try:
        allowed = sequential_outcomes(case)
    except SequentialDeadlock as e:
        return f"{case['name']}: {e}"
    prefix, runs = [], 0
    while prefix is not None:
        FAKE[0] = 1000.0
        obj = build(case["setup"])
        run = Run(obj, case["threads"], prefix)
        results = run.execute()
        runs += 1
        if run.deadlock:
            return f"{case['name']}: {run.deadlock} (schedule {[c for _, c in run.trace]})"
        try:
            outcome = (results, case["observe"](obj))
        except SequentialDeadlock as e:
            return f"{case['name']}: lock left held after all threads finished ({e})"
        if outcome not in allowed:
            names = [[n for n, _ in ops] for ops in case["threads"]]
            return (
                f"{case['name']}: threads {names} produced results {outcome[0]} with final "
                f"observation {outcome[1]}, which matches no sequential ordering; sequential "
                f"outcomes are {sorted(allowed, key=repr)}"
            )
        prefix = next_prefix(run.trace)
    case["runs"] = runs
    return None


# -------------------------------------------------------------------- programs
T = ErrorClass.TRANSIENT
RECOVERY = 30.0


def clock():
    return FAKE[0]


def breaker(threshold=2, prior_failures=0, state="closed", **kw):
    def setup():
        b = CircuitBreaker(
            failure_threshold=threshold, window_s=60.0, recovery_timeout_s=RECOVERY, clock=clock, **kw
        )
        if state == "closed":
            for _ in range(prior_failures):
                b.record_failure(T)
            return b
        for _ in range(threshold):
            b.record_failure(T)
        assert b.state.value == "open"
        if state == "open":
            return b
        FAKE[0] += RECOVERY  # exactly at the recovery boundary
        if state == "open_recovered":
            return b
        assert b.allow().allowed  # half-open, probe in flight
        if state == "half_open_idle":
            b.record_cancel()
        return b

    return setup


def observe_breaker(b):
    obs = [b.state.value, norm(b.allow())]
    FAKE[0] += RECOVERY
    obs.append(norm(b.allow()))
    obs.append(norm(b.allow()))
    obs.append(b.state.value)
    return tuple(obs)


def budget(max_retries, window_s=10.0, old=0, fresh=0, advance=0.0):
    def setup():
        bud = Budget(max_retries=max_retries, window_s=window_s)
        for _ in range(old):
            bud.consume()
        FAKE[0] += advance
        for _ in range(fresh):
            bud.consume()
        return bud

    return setup


def observe_budget(bud):
    rem = bud.remaining()
    granted = 0
    for _ in range(bud.max_retries + 2):
        if bud.consume():
            granted += 1
    return (rem, granted)


def op(name, *args):
    return (name + (repr(args) if args else "()"), lambda o: getattr(o, name)(*args))


FAIL, OK, ALLOW, CANCEL = op("record_failure", T), op("record_success"), op("allow"), op("record_cancel")

CASES = [
    dict(name="breaker closed, one failure below threshold, two racing failures",
         setup=breaker(2, prior_failures=1), threads=[[FAIL], [FAIL]], observe=observe_breaker),
    dict(name="breaker closed threshold 3, one prior failure, racing [fail,fail] | [fail]",
         setup=breaker(3, prior_failures=1), threads=[[FAIL, FAIL], [FAIL]], observe=observe_breaker),
    dict(name="breaker closed threshold 1, failure racing allow+success",
         setup=breaker(1), threads=[[FAIL], [ALLOW, OK]], observe=observe_breaker),
    dict(name="breaker open at recovery boundary, two racing allow()",
         setup=breaker(2, state="open_recovered"), threads=[[ALLOW], [ALLOW]], observe=observe_breaker),
    dict(name="breaker open at recovery boundary, allow() racing record_failure",
         setup=breaker(2, state="open_recovered"), threads=[[ALLOW], [FAIL]], observe=observe_breaker),
    dict(name="breaker half-open (probe in flight), failure racing success",
         setup=breaker(2, state="half_open"), threads=[[FAIL], [OK]], observe=observe_breaker),
    dict(name="breaker half-open (probe in flight), two racing failures",
         setup=breaker(2, state="half_open"), threads=[[FAIL], [FAIL]], observe=observe_breaker),
    dict(name="breaker half-open idle, two racing allow()",
         setup=breaker(2, state="half_open_idle"), threads=[[ALLOW], [ALLOW]], observe=observe_breaker),
    dict(name="breaker half-open (probe in flight), cancel+allow racing allow",
         setup=breaker(2, state="half_open"), threads=[[CANCEL, ALLOW], [ALLOW]], observe=observe_breaker),
    dict(name="breaker half-open (probe in flight), success racing allow+failure",
         setup=breaker(2, state="half_open"), threads=[[OK], [ALLOW, FAIL]], observe=observe_breaker),
    dict(name="budget 1, two racing consume()",
         setup=budget(1), threads=[[op("consume")], [op("consume")]], observe=observe_budget),
    dict(name="budget 3 with 1 used, consume(2) racing consume(1)+consume(1)",
         setup=budget(3, fresh=1), threads=[[op("consume", 2)], [op("consume"), op("consume")]],
         observe=observe_budget),
    dict(name="budget 3 with 2 expired + 1 live token, remaining() racing consume()",
         setup=budget(3, old=2, fresh=1, advance=10.0),
         threads=[[op("remaining")], [op("consume")]], observe=observe_budget),
    dict(name="budget 3 with 2 expired + 1 live token, two racing remaining()",
         setup=budget(3, old=2, fresh=1, advance=10.0),
         threads=[[op("remaining")], [op("remaining")]], observe=observe_budget),
    dict(name="budget 2 with 2 expired tokens, remaining() racing consume(2)+consume(1)",
         setup=budget(2, old=2, advance=10.0),
         threads=[[op("remaining")], [op("consume", 2), op("consume")]], observe=observe_budget),
]


def main():
    import json
    try:
        req = json.loads(sys.stdin.read() or "{}")
    except Exception:
        req = {}
    total = 0
    out = {"reproduced": False, "property": "C17", "scenarios_tried": 0, "scenario": None, "observed": None, "violated_clause": None}
    try:
        for case in CASES:
            bad = check_case(case)
            total += case.get("runs", 0)
            if bad:
                out.update(reproduced=True, scenario=case["name"], observed=str(bad)[:1500],
                           violated_clause="a concurrent outcome matches no sequential ordering of the same operations (or a schedule deadlocks)")
                break
        out["scenarios_tried"] = total
    except BaseException as exc:  # noqa: BLE001
        out = {"reproduced": None, "error": "%s: %s" % (type(exc).__name__, exc)}
    print(json.dumps(out, default=str))
    return 0


if __name__ == "__main__":
    sys.exit(main())
