"""F1 (C03): on the last permitted attempt the library must not sleep, spend a budget token or emit `retry`."""
from _common import done, payload
from redress import Budget, ErrorClass, Retry

p = payload()
n = int(p.get("max_attempts", 2))
sleeps, events = [], []
budget = Budget(max_retries=100, window_s=1000.0)
r = Retry(classifier=lambda e: ErrorClass.TRANSIENT, strategy=lambda ctx: 1.0, max_attempts=n, budget=budget,
          deadline_s=10_000.0)
calls = []


def op():
    calls.append(1)
    raise ConnectionError("boom")


try:
    r.call(op, sleeper=sleeps.append, on_metric=lambda ev, a, s, t: events.append((ev, a)))
except ConnectionError:
    pass
tokens = 100 - budget.remaining()
retries = [e for e in events if e[0] == "retry"]
bad = len(sleeps) > n - 1 or tokens > n - 1 or len(retries) > n - 1
done(bad, invocations=len(calls), sleeps=sleeps, tokens=tokens, events=events)
