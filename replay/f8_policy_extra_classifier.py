"""F8 (C12): Policy(retry=R).call must deliver what R.call delivers when no breaker is configured; it re-ran the
classifier for a breaker that does not exist, so a classifier that raises on that extra call replaced the operation's exception."""
from _common import done, payload
from redress import ErrorClass, Policy, Retry


def build():
    n = {"calls": 0}

    def classifier(e):
        n["calls"] += 1
        if n["calls"] > 1:
            raise RuntimeError("classifier called again")
        return ErrorClass.PERMANENT

    return Retry(classifier=classifier, strategy=lambda ctx: 0.0, max_attempts=3), n


def op():
    raise ValueError("original")


r, n1 = build()
try:
    r.call(op)
except Exception as e:
    a = type(e).__name__
r, n2 = build()
try:
    Policy(retry=r).call(op)
except Exception as e:
    b = type(e).__name__
done(a != b, retry_call=a, policy_call=b, classifier_calls=(n1["calls"], n2["calls"]))
