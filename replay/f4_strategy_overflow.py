"""F4 (C18): equal_jitter / token_backoff must not raise for any attempt >= 1."""
from _common import done, payload
from redress import ErrorClass
from redress.strategies import equal_jitter, token_backoff

p = payload()
which = p.get("strategy", "equal_jitter")
attempt = int(p.get("attempt", 1024))
f = {"equal_jitter": equal_jitter, "token_backoff": token_backoff}[which](float(p.get("base_s", 0.25)), float(p.get("max_s", 30.0)))
try:
    v = f(attempt, ErrorClass.TRANSIENT, None)
except BaseException as ex:  # noqa
    done(True, raised=type(ex).__name__, message=str(ex)[:100])
done(False, value=v)
