"""F7 (C07/C09): a policy call that is aborted *before* admission (no retry configured, abort_if() is True)
still calls breaker.record_cancel(); in HALF_OPEN this frees the probe slot of another call that is still in
flight, so a second probe is admitted before the first one's result is recorded."""
from _common import done, payload
from redress import CircuitBreaker, ErrorClass, Policy
from redress.errors import AbortRetryError

p = payload()
clock = {"t": 0.0}
b = CircuitBreaker(failure_threshold=1, window_s=10.0, recovery_timeout_s=5.0, clock=lambda: clock["t"])
b.record_failure(ErrorClass.TRANSIENT)          # opens
clock["t"] = 6.0
first = b.allow()                                # probe A admitted, still in flight
second_before = b.allow()                        # correctly rejected
pol = Policy(circuit_breaker=b)
which = p.get("entry", "call")
try:
    if which == "call":
        pol.call(lambda: "ok", abort_if=lambda: True)
    else:
        pol.execute(lambda: "ok", abort_if=lambda: True)
except AbortRetryError:
    pass
second_after = b.allow()                         # must still be rejected: A has not reported yet
done(first.allowed and (not second_before.allowed) and second_after.allowed,
     first=first.allowed, rejected_while_probe_in_flight=not second_before.allowed,
     admitted_after_unadmitted_abort=second_after.allowed, state=str(b.state))
