"""Native replay for _call_with_timeout (C04 / C13): with attempt_timeout_s set, an operation that finishes in time by raising must have
its own exception object delivered by call() - whatever its class - and one that returns must have its own object returned.
payload: {"exc": "<builtin exception class name>"} directly, or a counter-model whose op_cls!1 names the class."""
import builtins
import re

from _common import done, payload

p = payload()
name = p.get("exc")
if name is None:
    m = (p.get("model") or {})
    leaf = next((v for k, v in m.items() if k.startswith("op_cls")), "L_Exception*")
    name = re.sub(r"^L_|\*$", "", str(leaf))
base = getattr(builtins, name, None)
if base is None:
    import asyncio
    # lattice leaves that are not a builtin name: "some other BaseException subclass" / "some other Exception subclass"
    base = {"CancelledError": asyncio.CancelledError, "BaseException_other": type("OtherBase", (BaseException,), {}),
            "Exception_other": type("Other", (Exception,), {})}.get(name, Exception)
cls = base if not str(p.get("subclass", "")) else type("Mine", (base,), {})
try:
    mine = cls("the operation's own exception")
except Exception:
    mine = cls()


def op():
    raise mine


from redress import RetryPolicy  # noqa: E402
from redress.classify import default_classifier  # noqa: E402
from redress.errors import ErrorClass  # noqa: E402

pol = RetryPolicy(classifier=lambda e: ErrorClass.PERMANENT, strategy=lambda ctx: 0.0, max_attempts=1, attempt_timeout_s=30.0)
try:
    pol.call(op, sleeper=lambda s: None)
except BaseException as e:  # noqa
    done(e is not mine, raised=repr(e), own=repr(mine), same_object=e is mine, exc_class=name)
done(True, raised=None, own=repr(mine), exc_class=name)
