"""Native scenario engine: counterexample search for the retry-layer properties C01..C16.

Reads one JSON object on stdin ({"obligation", "model", "property", "budget_s", "seed"}; optionally
{"scenario": {...}} to replay a single scenario), runs scripted scenarios against the REAL redress
library found on PYTHONPATH under a fake monotonic clock, and checks the requested property with
runtime oracles written from the property statements (not from the library's code).
Last stdout line: {"reproduced", "property", "scenarios_tried", "scenario", "observed", "violated_clause"}.
"""
import asyncio
import json
import math
import random
import re
import sys
import time
import warnings

TOL = 2e-6                       # C02 band: hides the known sub-microsecond timedelta rounding
NONRETRY = ("PERMANENT", "AUTH", "PERMISSION")
CLASSES = ("TRANSIENT", "UNKNOWN", "RATE_LIMIT", "SERVER_ERROR", "CONCURRENCY") + NONRETRY
CANCEL = ("KeyboardInterrupt", "SystemExit", "CancelledError", "GeneratorExit")
UNCLASSIFIED = CANCEL + ("AbortRetryError", "RetryExhaustedError")
RETRY_ENTRIES = ["Retry", "AsyncRetry", "Policy", "AsyncPolicy", "RetryPolicy"]
BREAKER_PROPS = ("C07", "C08", "C09")
NESTED = ("CircuitOpenError", "RetryExhaustedError")   # raised by the operation itself (nested policy)
STRICT_NESTED = False            # opt-in (hint "nested"): hold nested-policy errors to the C09 record kind
R = None                         # the redress module, imported in main()


class Boom(Exception):
    """Raised by scripted callbacks and hooks."""


class Val:                       # a successful attempt's return value (identity matters)
    pass


class Res:                       # a return value that the result_classifier calls a failure
    def __init__(self, spec):
        self.spec = spec


def fnum(x):
    return float(x) if isinstance(x, str) else x


def drive(coro):
    """Run a coroutine that never really suspends (all awaited callbacks are scripted)."""
    try:
        coro.send(None)
    except StopIteration as stop:
        return stop.value
    coro.close()
    raise RuntimeError("coroutine suspended: scenario engine callbacks never block")


# --------------------------------------------------------------------------------------------------
# World: the scripted environment of one scenario run (fake clock, operation, callbacks, spies)
# --------------------------------------------------------------------------------------------------
class World:
    def __init__(self, sc, raising, entry):
        self.sc, self.cfg = sc, sc["config"]
        self.raising = bool(sc.get("hooks_raise")) if raising is None else raising
        self.entry = entry or sc["entry"]
        self.t = self.t0 = 0.0
        self.trace, self.n, self.objs, self.info, self.keep, self.grants = [], {}, {}, {}, [], []

    def now(self):
        return self.t

    def ev(self, k, **kw):
        kw.update(k=k, n=len(self.trace), at=self.t - self.t0)
        self.trace.append(kw)
        return kw

    def idx(self, name):
        i = self.n.get(name, 0)
        self.n[name] = i + 1
        return i

    def boom(self, who, e, key=None):
        """scripted callback failure: at the `at`-th strategy/sleeper call, or when classifying attempt `at`"""
        cr = self.sc.get("callback_raises")
        if cr and cr["who"] == who and cr["at"] == (self.n[who] - 1 if key is None else key):
            e["boom"] = True
            raise KeyboardInterrupt() if cr.get("exc") == "KeyboardInterrupt" else Boom(who)

    def hook_boom(self, who, i):
        spec = (self.sc.get("hooks_raise") or {}).get(who)
        if self.raising and spec is not None and (spec == "all" or i in spec):
            raise Boom("hook " + who)

    def remember(self, obj, kind, i):
        self.keep.append(obj)
        self.objs[id(obj)] = [kind, i]
        return obj

    def ref(self, obj):
        return None if obj is None else self.objs.get(id(obj), type(obj).__name__)

    # ---- the operation ---------------------------------------------------------------------------
    def _op(self):
        i = self.idx("op")
        a = self.sc["attempts"][i] if i < len(self.sc["attempts"]) else {"kind": "ok"}
        e = self.ev("op", i=i, kind=a["kind"], exc=a.get("exc"), klass=eff_klass(a))
        self.t += a.get("duration", 0.0)
        e["end"] = self.t - self.t0
        if a["kind"] == "ok":
            return self.remember(Val(), "val", i)
        if a["kind"] == "result":
            return self.remember(Res(a), "res", i)
        exc = self.remember(make_exc(a["exc"]), "exc", i)
        self.info[id(exc)] = a
        raise exc

    async def _aop(self):
        return self._op()

    # ---- classifier / strategies -----------------------------------------------------------------
    def classify_spec(self, a):
        klass = R.ErrorClass[(a or {}).get("klass") or "UNKNOWN"]
        if a and a.get("as_classification"):
            return R.Classification(klass=klass, retry_after_s=a.get("retry_after_s"))
        return klass

    def classifier(self, exc):
        e = self.ev("classify", type=type(exc).__name__)
        self.boom("classifier", e, self.objs.get(id(exc), [None, -1])[1])
        return self.classify_spec(self.info.get(id(exc)))

    def result_classifier(self, value):
        if not isinstance(value, Res):
            return None
        self.boom("result_classifier", self.ev("classify_result"), self.objs[id(value)][1])
        return self.classify_spec(value.spec)

    def strategy(self, which):
        def body(attempt, klass, prev, remaining=None, cause=None, retry_after=None):
            rets = self.sc.get("strategy_returns") or [0.0]
            ret = float(rets[self.idx("strategy") % len(rets)])
            e = self.ev("strategy", which=which, attempt=attempt, klass=klass.name, prev=prev,
                        remaining=remaining, cause=cause, retry_after=retry_after, ret=ret)
            self.boom("strategy", e)
            return ret

        if self.sc.get("legacy_strategy"):
            return lambda attempt, klass, prev_sleep_s: body(attempt, klass, prev_sleep_s)
        return lambda ctx: body(ctx.attempt, ctx.klass, ctx.prev_sleep_s, ctx.remaining_s, ctx.cause,
                                ctx.classification.retry_after_s)

    # ---- per-call callbacks ----------------------------------------------------------------------
    def abort_if(self):
        answers = self.sc["abort_answers"]
        i = self.idx("abort")
        ans = answers[i] if i < len(answers) else False
        self.ev("abort", ans=ans)
        return ans

    def handler(self, ctx, sleep_s):
        decisions = self.sc["sleep_handler"]
        i = self.idx("handler")
        d = decisions[i] if i < len(decisions) else "sleep"
        self.ev("handler", sleep_s=sleep_s, attempt=ctx.attempt, d=d)
        return R.SleepDecision(d)

    def before_sleep(self, ctx, sleep_s):
        i = self.idx("before_sleep")
        self.ev("before_sleep", sleep_s=sleep_s, attempt=ctx.attempt)
        self.hook_boom("before_sleep", i)

    def sleeper(self, sleep_s):
        over = self.sc.get("overshoots") or [0.0]
        ov = over[self.idx("sleeper") % len(over)]
        e = self.ev("sleeper", arg=sleep_s, over=ov)
        self.boom("sleeper", e)
        self.t += (max(0.0, sleep_s) if math.isfinite(sleep_s) else 0.0) + ov

    def decoy(self, what):
        def fn(*args):
            self.ev("decoy", what=what)
            return R.SleepDecision.SLEEP if what == "handler" else None
        return fn

    def on_metric(self, event, attempt, sleep_s, tags):
        i = self.idx("on_metric")
        self.ev("metric", event=event, attempt=attempt, sleep_s=sleep_s, tags=dict(tags))
        self.hook_boom("on_metric", i)

    def on_log(self, event, fields):
        i = self.idx("on_log")
        self.ev("log", event=event, fields=dict(fields))
        self.hook_boom("on_log", i)

    # ---- budget / breaker spies ------------------------------------------------------------------
    def in_window(self, window_s):
        """independent model of the rolling window; grants aged exactly window_s (+- float noise) may count"""
        return sum(1 for g in self.grants if self.t - g < window_s + 1e-9)

    def make_budget(self):
        spec = self.cfg.get("budget")
        if not spec:
            return None
        b = R.Budget(max_retries=spec["max_retries"], window_s=spec["window_s"])
        for _ in range(min(spec.get("prefill", 0), spec["max_retries"])):
            b.consume()
            self.grants.append(self.t)
        real = b.consume

        def consume(cost=1):
            used = self.in_window(spec["window_s"])
            ok = real(cost)
            self.ev("consume", ok=ok, used=used, cap=spec["max_retries"])
            if ok:
                self.grants.append(self.t)
            return ok
        b.consume = consume
        return b

    def make_breaker(self):
        spec = self.cfg.get("breaker")
        if not spec or "Policy" not in self.entry or self.entry.startswith("RetryPolicy"):
            return None
        world = self

        class SpyBreaker(R.CircuitBreaker):
            live = False

            def allow(self):
                d = super().allow()
                if self.live:
                    world.ev("breaker", m="allow", ret=d.allowed, state=d.state.value)
                return d

            def record_success(self):
                if self.live:
                    world.ev("breaker", m="record_success")
                return super().record_success()

            def record_failure(self, klass):
                if self.live:
                    world.ev("breaker", m="record_failure", klass=klass.name)
                return super().record_failure(klass)

            def record_cancel(self):
                if self.live:
                    world.ev("breaker", m="record_cancel")
                return super().record_cancel()

        b = SpyBreaker(failure_threshold=spec["failure_threshold"], window_s=spec["window_s"],
                       recovery_timeout_s=spec["recovery_timeout_s"], clock=self.now)
        self.t = -spec.get("pre_age", 0.0)
        for _ in range(spec.get("pre_failures", 0)):
            b.record_failure(R.ErrorClass.TRANSIENT)
        self.t = 0.0
        if spec.get("probe_taken"):
            b.allow()                     # somebody else's probe is in flight
        b.live = True
        return b

    # ---- building the policy object and running it -----------------------------------------------
    def build(self, cls_name, is_async, budget, breaker):
        sc, cfg = self.sc, self.cfg
        wrap = is_async and sc.get("async_callbacks")

        def mk_async(fn):
            async def afn(*args):
                return fn(*args)
            return afn
        sleeper = mk_async(self.sleeper) if wrap else self.sleeper
        before = (mk_async(self.before_sleep) if wrap else self.before_sleep) if sc.get("before_sleep") else None
        handler = self.handler if sc.get("sleep_handler") is not None else None
        placed = {}
        for name, real in (("handler", handler), ("before_sleep", before), ("sleeper", sleeper)):
            where = (sc.get("placement") or {}).get(name, "call")
            placed[name] = (None, None) if real is None else {
                "call": (None, real), "policy": (real, None), "both": (self.decoy(name), real)}[where]
        self.call_kw = dict(on_metric=self.on_metric, on_log=self.on_log, sleep=placed["handler"][1],
                            before_sleep=placed["before_sleep"][1], sleeper=placed["sleeper"][1])
        if sc.get("abort_answers") is not None:
            self.call_kw["abort_if"] = self.abort_if
        kw = dict(
            classifier=self.classifier,
            result_classifier=self.result_classifier if cfg.get("result_classifier") else None,
            strategy=self.strategy("default") if cfg.get("default_strategy") else None,
            strategies={R.ErrorClass[k]: self.strategy(k) for k in cfg.get("class_strategies", [])},
            sleep=placed["handler"][0], before_sleep=placed["before_sleep"][0], sleeper=placed["sleeper"][0],
            budget=budget, deadline_s=cfg["deadline_s"], max_attempts=cfg["max_attempts"],
            max_unknown_attempts=cfg.get("max_unknown_attempts"),
            per_class_max_attempts={R.ErrorClass[k]: v for k, v in (cfg.get("per_class_max_attempts") or {}).items()},
        )
        if cls_name == "RetryPolicy":
            return R.RetryPolicy(**kw)
        retry_cls = R.AsyncRetry if is_async else R.Retry
        if cls_name in ("Retry", "AsyncRetry"):
            return retry_cls(**kw)
        retry = retry_cls(**kw) if cfg.get("policy_retry", True) else None
        return (R.AsyncPolicy if is_async else R.Policy)(retry=retry, circuit_breaker=breaker)

    def one_call(self, target, method, is_async):
        self.t0, self.trace, self.n = self.t, [], {}
        kw = dict(self.call_kw, capture_timeline=True) if method == "execute" else self.call_kw
        try:
            fn = getattr(target, method)
            out = drive(fn(self._aop, **kw)) if is_async else fn(self._op, **kw)
            if method == "call":
                d = {"mode": "return", "obj": self.ref(out)}
            else:
                d = {"mode": "outcome", "ok": out.ok, "value": self.ref(out.value),
                     "stop_reason": getattr(out.stop_reason, "value", None), "attempts": out.attempts,
                     "last_class": getattr(out.last_class, "name", None), "cause": out.cause,
                     "last_exception": self.ref(out.last_exception), "last_result": self.ref(out.last_result),
                     "next_sleep_s": out.next_sleep_s,
                     "timeline": None if out.timeline is None else [
                         {"event": e.event, "attempt": e.attempt, "sleep_s": e.sleep_s,
                          "stop_reason": getattr(e.stop_reason, "value", None)} for e in out.timeline.events]}
        except BaseException as exc:  # noqa: BLE001 - cancellation-type exceptions are scripted here
            tb = exc.__traceback__
            while tb is not None and tb.tb_next is not None:
                tb = tb.tb_next
            d = {"mode": "raise", "type": type(exc).__name__, "obj": self.ref(exc), "text": str(exc)[:80],
                 "tb_in_op": tb is not None and tb.tb_frame.f_code.co_name == "_op"}
            if not isinstance(d["obj"], list):
                d["obj"] = None
            if isinstance(exc, R.RetryExhaustedError) and d["obj"] is None:
                d.update(stop_reason=exc.stop_reason.value, attempts=exc.attempts,
                         last_class=getattr(exc.last_class, "name", None), next_sleep_s=exc.next_sleep_s,
                         last_exception=self.ref(exc.last_exception), last_result=self.ref(exc.last_result))
        return {"trace": self.trace, "delivery": d, "end_off": self.t - self.t0, "entry": self.entry}

    def run(self):
        cls_name, method = self.entry.split(".")
        is_async = cls_name.startswith("Async")
        budget, breaker = self.make_budget(), self.make_breaker()
        target = self.build(cls_name, is_async, budget, breaker)
        calls = []
        for _ in range(self.sc.get("repeat", 1)):
            calls.append(self.one_call(target, method, is_async))
            self.t += self.sc.get("gap_s", 0.0)
        post = None
        if breaker is not None:
            breaker.live = False
            state = breaker.state.value
            self.t += self.cfg["breaker"]["recovery_timeout_s"] * 1.001      # clear of float rounding at the boundary
            post = {"state_after": state, "allow_after_timeout": breaker.allow().allowed}
        return {"calls": calls, "post": post}


def eff_klass(a):
    if a["kind"] == "ok" or (a["kind"] == "exc" and a["exc"] in UNCLASSIFIED):
        return None
    return a.get("klass") or "UNKNOWN"


def make_exc(name):
    if name == "RetryExhaustedError":
        return R.RetryExhaustedError(stop_reason=R.StopReason.MAX_ATTEMPTS_GLOBAL, attempts=1, last_class=None,
                                     last_exception=None, last_result=None)
    table = {"ValueError": ValueError, "TimeoutError": TimeoutError, "KeyboardInterrupt": KeyboardInterrupt,
             "SystemExit": SystemExit, "CancelledError": asyncio.CancelledError, "GeneratorExit": GeneratorExit,
             "AbortRetryError": R.AbortRetryError, "CircuitOpenError": R.CircuitOpenError}
    return table[name]()


def run_scenario(sc, raising=None, entry=None):
    world = World(sc, raising, entry)
    real = time.monotonic
    time.monotonic = world.now
    try:
        return world.run()
    finally:
        time.monotonic = real


# --------------------------------------------------------------------------------------------------
# Facts derived from one observed call, shared by the oracles
# --------------------------------------------------------------------------------------------------
class Facts:
    def __init__(self, sc, ob):
        self.sc, self.cfg, self.ob, tr = sc, sc["config"], ob, ob["trace"]
        self.d = d = ob["delivery"]
        by = lambda k: [e for e in tr if e["k"] == k]  # noqa: E731
        self.ops, self.sleeps, self.strats, self.aborts = by("op"), by("sleeper"), by("strategy"), by("abort")
        self.handlers, self.consumes, self.breaker = by("handler"), by("consume"), by("breaker")
        self.metrics = [e for e in by("metric") if not e["event"].startswith("circuit_")]
        self.logs = [e for e in by("log") if not e["event"].startswith("circuit_")]
        self.last = self.ops[-1] if self.ops else None
        self.terminal = self.metrics[-1] if self.metrics else None
        self.has_retry = "Policy." not in ob["entry"] or ob["entry"].startswith("RetryPolicy") \
            or self.cfg.get("policy_retry", True)
        self.rejected = any(e["m"] == "allow" and not e["ret"] for e in self.breaker)
        self.stop = d.get("stop_reason") or ((self.terminal or {}).get("tags") or {}).get("stop_reason")
        self.abort_at = min([e["n"] for e in self.aborts if e["ans"]]
                            + [o["n"] for o in self.ops if o["exc"] == "AbortRetryError"]
                            + [h["n"] for h in self.handlers if h["d"] == "abort"], default=None)
        self.boom = any(e.get("boom") for e in tr)
        self.aborted = (d["mode"] == "raise" and d["type"] == "AbortRetryError") or \
            (d["mode"] == "outcome" and d["stop_reason"] == "ABORTED")
        # delivery that is a propagation rather than a retry-layer verdict
        self.propagated = d["mode"] == "raise" and (
            self.boom or (d["obj"] is not None and d["type"] in CANCEL + ("RetryExhaustedError",)))
        self.success = self.last is not None and self.last["kind"] == "ok"

    def seg(self, o):
        """trace entries after op o and before the next op"""
        nxt = min([p["n"] for p in self.ops if p["n"] > o["n"]], default=10 ** 9)
        return [e for e in self.ob["trace"] if o["n"] < e["n"] < nxt]

    def strategy_for(self, klass):
        if klass in self.cfg.get("class_strategies", []):
            return klass
        return "default" if self.cfg.get("default_strategy") else None

    def delay(self, st):
        """C05: sanitised strategy output capped at the time remaining when the failure was handled"""
        rem = st["remaining"] if st["remaining"] is not None else self.cfg["deadline_s"] - st["at"]
        x = st["ret"] if math.isfinite(st["ret"]) else 0.0
        return min(max(0.0, x), rem), rem, (0.0 if st["remaining"] is not None else TOL)

    def near(self, x, st):
        want, rem, slack = self.delay(st)
        return isinstance(x, (int, float)) and abs(x - want) <= 1e-9 * abs(rem) + slack


# --------------------------------------------------------------------------------------------------
# Oracles: each returns the text of a violated clause, or None
# --------------------------------------------------------------------------------------------------
def c01(f):
    cap = f.cfg["max_attempts"] if f.has_retry else 1
    if len(f.ops) > cap:
        return "operation invoked more than max_attempts times"
    retried = f.ops[:-1]
    if any(o["klass"] in NONRETRY for o in retried):
        return "operation invoked again after a PERMANENT/AUTH/PERMISSION failure"
    for k, lim in (f.cfg.get("per_class_max_attempts") or {}).items():
        if sum(o["klass"] == k for o in retried) > lim:
            return "retries granted after %s failures exceed per_class_max_attempts" % k
    mu = f.cfg.get("max_unknown_attempts")
    if mu is not None and sum(o["klass"] == "UNKNOWN" for o in retried) > mu:
        return "retries after UNKNOWN failures exceed max_unknown_attempts"
    return None


def c02(f):
    dl = f.cfg["deadline_s"]
    if not f.has_retry:
        return None
    if any(o["at"] > dl + TOL for o in f.ops[1:]):
        return "an attempt other than the first started after more than deadline_s had elapsed"
    for s in f.sleeps:
        if not (isinstance(s["arg"], (int, float)) and math.isfinite(s["arg"]) and s["arg"] >= 0):
            return "requested sleep is negative or not finite"
        if s["arg"] > dl - s["at"] + TOL:
            return "requested sleep is longer than the time remaining before the deadline"
    if sum(s["arg"] for s in f.sleeps) > max(dl, 0.0) + TOL:
        return "total requested sleep exceeds deadline_s"
    return None


def reason_holds(f, reason):
    cfg, last = f.cfg, f.last
    fails = [o for o in f.ops if o["klass"] is not None]
    count = lambda k: sum(o["klass"] == k for o in fails)  # noqa: E731
    if reason == "MAX_ATTEMPTS_GLOBAL":
        return len(f.ops) >= cfg["max_attempts"]
    if reason == "ABORTED":
        return f.abort_at is not None
    if reason == "DEADLINE_EXCEEDED":
        return f.ob["end_off"] >= cfg["deadline_s"] - TOL
    if last is None or last["klass"] is None:
        return False
    if reason == "MAX_ATTEMPTS_PER_CLASS":
        lim = (cfg.get("per_class_max_attempts") or {}).get(last["klass"])
        return lim is not None and count(last["klass"]) > lim
    if reason == "MAX_UNKNOWN_ATTEMPTS":
        mu = cfg.get("max_unknown_attempts")
        return last["klass"] == "UNKNOWN" and mu is not None and count("UNKNOWN") > mu
    if reason == "NON_RETRYABLE_CLASS":
        return last["klass"] in NONRETRY
    if reason == "NO_STRATEGY":
        return f.strategy_for(last["klass"]) is None
    if reason == "BUDGET_EXHAUSTED":
        c = [e for e in f.consumes if e["n"] > last["n"]]
        return bool(c) and not c[-1]["ok"] and c[-1]["used"] >= c[-1]["cap"]
    if reason == "SCHEDULED":
        return bool(f.handlers) and f.handlers[-1]["d"] == "defer" and f.handlers[-1]["n"] > last["n"]
    return False


def c03(f):
    if not f.has_retry or f.rejected:
        return None
    m = f.cfg["max_attempts"]
    if len(f.ops) >= m >= 1:
        final = f.ops[m - 1]["n"]
        for e in f.ob["trace"]:
            if e["n"] > final and (e["k"] in ("sleeper", "consume") or (e["k"] == "metric" and e["event"] == "retry")):
                return "sleep / budget token / `retry` event after the last permitted attempt"
    for o in f.ops:
        if o["kind"] == "ok" and (o is not f.last or any(e["k"] in ("sleeper", "strategy", "consume") for e in f.seg(o))):
            return "a successful attempt did not end the run at once"
    if any(sum(e["k"] == "consume" for e in f.seg(o)) > 1 for o in f.ops):
        return "more than one budget token requested for one retry decision"
    if any(o["klass"] in NONRETRY or (o["klass"] and f.strategy_for(o["klass"]) is None) for o in f.ops[:-1]):
        return "another attempt followed a failure that is not retryable or has no strategy"
    if f.propagated or f.success:
        return None
    if f.stop is not None and not reason_holds(f, f.stop):
        return "reported stop reason %s is not a stop condition that holds" % f.stop
    if f.last is not None and not any(reason_holds(f, r) for r in (
            "MAX_ATTEMPTS_GLOBAL", "ABORTED", "DEADLINE_EXCEEDED", "MAX_ATTEMPTS_PER_CLASS", "MAX_UNKNOWN_ATTEMPTS",
            "NON_RETRYABLE_CLASS", "NO_STRATEGY", "BUDGET_EXHAUSTED", "SCHEDULED")):
        return "gave up after a failed attempt although retrying was still permitted"
    return None


def exhausted_fields(f, d):
    """C04/C11: stop_reason, attempts, last_class, last_exception/last_result, next_sleep_s describe the final attempt"""
    last = f.last
    if d["attempts"] != len(f.ops):
        return "attempts does not equal the number of invocations"
    if f.terminal is not None and f.terminal["tags"].get("stop_reason") != d["stop_reason"]:
        return "stop_reason differs from the terminal event's stop_reason"
    if (d["next_sleep_s"] is not None) != (d["stop_reason"] == "SCHEDULED"):
        return "next_sleep_s must be set exactly for SCHEDULED"
    if d["stop_reason"] == "SCHEDULED" and d["next_sleep_s"] != f.handlers[-1]["sleep_s"]:
        return "next_sleep_s differs from the delay offered to the sleep handler"
    if d["last_exception"] is not None and d["last_result"] is not None:
        return "both last_exception and last_result are set"
    if d["stop_reason"] == "ABORTED" or last is None or last["klass"] is None:
        return None                     # aborted runs may stop before the final failure is classified
    if d["last_class"] != last["klass"]:
        return "last_class does not describe the final attempt"
    want = ["exc" if last["kind"] == "exc" else "res", last["i"]]
    got = d["last_exception"] if last["kind"] == "exc" else d["last_result"]
    other = d["last_result"] if last["kind"] == "exc" else d["last_exception"]
    if got != want or other is not None:
        return "last_exception/last_result do not describe the final attempt"
    return None


def c04(f):
    d, last = f.d, f.last
    if d["mode"] == "outcome" or last is None or f.rejected:
        return None
    if last["kind"] == "ok":
        return None if d == {"mode": "return", "obj": ["val", last["i"]]} else \
            "call() did not return the very object returned by the successful attempt"
    if d["mode"] == "return":
        return "call() returned although the final attempt failed"
    if f.boom:
        return None if d["type"] in ("Boom", "KeyboardInterrupt") else "callback error was replaced"
    if last["exc"] in CANCEL + ("RetryExhaustedError",):
        return None if d["obj"] == ["exc", last["i"]] else "cancellation-type exception was not propagated unchanged"
    if f.abort_at is not None:
        return None if d["type"] == "AbortRetryError" else "aborted run did not raise AbortRetryError"
    if d["type"] == "RetryExhaustedError":
        if last["kind"] == "exc" and d["stop_reason"] != "SCHEDULED":
            return "exception failure must re-raise the attempt's own exception, not RetryExhaustedError"
        return exhausted_fields(f, d)
    if last["kind"] == "result":
        return "result failure must raise RetryExhaustedError"
    if d["obj"] != ["exc", last["i"]]:
        return "call() raised something other than the last attempt's own exception object"
    return None if d["tb_in_op"] else "re-raised exception lost its original traceback"


def c05(f):
    if not f.has_retry:
        return None
    prev, st = None, None
    for o in f.ops:
        seg = f.seg(o)
        sts = [e for e in seg if e["k"] == "strategy"]
        if len(sts) > 1:
            return "strategy called more than once for one failed attempt"
        if not sts:
            if any(e["k"] == "sleeper" for e in seg) or (o is not f.last):
                return "retry granted / sleep performed without consulting the strategy"
            continue
        st = sts[0]
        if st["attempt"] != o["i"] + 1 or st["klass"] != o["klass"] or st["which"] != f.strategy_for(o["klass"]):
            return "strategy called with wrong attempt number / class, or wrong strategy selected"
        if st["prev"] != prev:
            return "prev_sleep_s is not the previously applied delay"
        if st["remaining"] is not None:
            spec = f.sc["attempts"][o["i"]]
            if st["cause"] != ("exception" if o["kind"] == "exc" else "result"):
                return "strategy context has the wrong cause"
            if st["retry_after"] != (spec.get("retry_after_s") if spec.get("as_classification") else None):
                return "strategy context lost the classifier's retry_after_s"
            if abs(st["remaining"] - (f.cfg["deadline_s"] - st["at"])) > TOL:
                return "remaining_s is not deadline_s minus elapsed"
        if st.get("boom"):
            continue
        for e in seg:
            x = e.get("arg") if e["k"] == "sleeper" else e.get("sleep_s") if e["k"] in ("handler", "before_sleep") or (
                e["k"] == "metric" and e["event"] in ("retry", "scheduled")) else None
            if e["k"] == "log" and e["event"] == "retry":
                x = e["fields"].get("sleep_s")
            if x is not None and not f.near(x, st):
                return "%s received %r, not the sanitised and capped strategy output" % (e["k"], x)
        prev = f.delay(st)[0]
    if f.d.get("stop_reason") == "SCHEDULED" and (st is None or not f.near(f.d.get("next_sleep_s"), st)):
        return "next_sleep_s is not the computed delay"
    return None


def c11(f):
    d, last = f.d, f.last
    if f.ob["entry"].endswith(".call") or not f.has_retry or f.rejected:
        return None
    if d["mode"] == "raise":
        ok = (f.boom and d["type"] in ("Boom", "KeyboardInterrupt")) or (
            last is not None and last["exc"] in CANCEL + ("RetryExhaustedError",) and d["obj"] == ["exc", last["i"]])
        return None if ok else "execute() raised %s, which is not a cancellation / nested / callback error" % d["type"]
    if f.boom or (last is not None and last["exc"] in CANCEL + ("RetryExhaustedError",)):
        return "execute() swallowed an exception that must propagate"
    if d["ok"] != f.success:
        return "ok must be true exactly when the final attempt succeeded"
    if d["ok"]:
        return None if d["value"] == ["val", last["i"]] and d["stop_reason"] is None else \
            "ok outcome does not carry the final attempt's value"
    if d["stop_reason"] is None or d["value"] is not None:
        return "failed outcome without stop_reason (or with a value)"
    if (d["cause"] is None) != (d["last_exception"] is None and d["last_result"] is None):
        return "cause and last_exception/last_result disagree"
    return exhausted_fields(f, d)


def c13(f):
    if not f.has_retry or f.rejected:
        return None
    if f.sc.get("abort_answers") is not None and not f.boom:
        marks = [0] + [o["n"] for o in f.ops]
        for o in f.ops:
            if not any(marks[o["i"]] <= a["n"] < o["n"] for a in f.aborts):
                return "abort_if was not polled before an attempt"
        for s in f.sleeps:
            since = max(o["n"] for o in f.ops if o["n"] < s["n"])
            if not any(since < a["n"] < s["n"] for a in f.aborts):
                return "abort_if was not polled before a sleep"
    if f.abort_at is not None and not f.propagated:
        if any(e["n"] > f.abort_at and e["k"] in ("op", "sleeper") for e in f.ob["trace"]):
            return "operation invoked or sleep started after abort was requested"
        if not f.aborted:
            return "aborted run did not end with AbortRetryError / ABORTED"
    for o in f.ops:
        if o["exc"] in CANCEL:
            if f.d.get("obj") != ["exc", o["i"]] or f.d["mode"] != "raise":
                return "cancellation-type exception did not propagate unchanged"
            if any(e["n"] > o["n"] and e["k"] in ("strategy", "sleeper", "metric", "log", "classify", "op")
                   for e in f.ob["trace"]):
                return "cancellation-type exception was classified / retried / followed by events"
    return None


def c14(f):
    if not f.has_retry or f.rejected or f.propagated:
        return None
    evs = f.metrics
    if not evs:
        return "no terminal event"
    for i, e in enumerate(evs[:-1]):
        if e["event"] != "retry" or e["attempt"] != i + 1:
            return "event stream is not retry* (i-th with attempt == i) followed by one terminal event"
    term = evs[-1]
    if term["event"] == "retry":
        return "run ended without a terminal event"
    if f.success != (term["event"] == "success"):
        return "terminal event is `success` iff the run succeeded"
    delivered = "ABORTED" if f.aborted else f.d.get("stop_reason")
    if not f.success and (term["tags"].get("stop_reason") is None or
                          (delivered is not None and term["tags"]["stop_reason"] != delivered)):
        return "terminal event's stop_reason tag differs from the delivered stop reason"
    if not f.success and term["tags"]["stop_reason"] != "ABORTED" and f.last is not None:
        want = {"class": f.last["klass"], "cause": "exception" if f.last["kind"] == "exc" else "result"}
        if f.last["kind"] == "exc":
            want["err"] = f.last["exc"]
        if any(term["tags"].get(k) != v for k, v in want.items()):
            return "terminal event's class/err/cause tags do not describe the final failure"
    key = lambda ev, a, s, sr: (ev, a, s, sr)  # noqa: E731
    m = [key(e["event"], e["attempt"], e["sleep_s"], e["tags"].get("stop_reason")) for e in evs]
    lg = [key(e["event"], e["fields"].get("attempt"), e["fields"].get("sleep_s"), e["fields"].get("stop_reason"))
          for e in f.logs]
    if m != lg:
        return "log stream differs from metric stream"
    tl = f.d.get("timeline")
    if tl is not None and m != [key(e["event"], e["attempt"], e["sleep_s"], e["stop_reason"]) for e in tl]:
        return "timeline differs from metric stream"
    return None


def c16(f):
    if not f.has_retry or f.boom:
        return None
    if any(e["k"] == "decoy" for e in f.ob["trace"]):
        return "policy-level handler/hook/sleeper used although a per-call one was given"
    has_handler, has_before = f.sc.get("sleep_handler") is not None, bool(f.sc.get("before_sleep"))
    for o in f.ops:
        seg = f.seg(o)
        ks = [e["k"] for e in seg]
        grants = [e for e in seg if e["k"] == "metric" and e["event"] == "retry"]
        if not grants:
            if "handler" in ks or "sleeper" in ks or "before_sleep" in ks:
                return "handler / sleep without a granted retry"
            continue
        delay = grants[0]["sleep_s"]
        after = [e for e in seg if e["n"] > grants[0]["n"]]
        if any(e["k"] == "abort" and e["ans"] for e in after):
            continue                    # abort requested between grant and backoff: C13 governs
        acts = [e for e in after if e["k"] in ("handler", "before_sleep", "sleeper")]
        decision = "sleep"
        if has_handler:
            if not acts or acts[0]["k"] != "handler" or ks.count("handler") != 1 or acts[0]["sleep_s"] != delay:
                return "handler not consulted exactly once with the computed delay"
            decision, acts = acts[0]["d"], acts[1:]
        if decision != "sleep":
            if acts or o is not f.last:
                return "%s must perform no sleep and no further attempt" % decision.upper()
            want = "SCHEDULED" if decision == "defer" else "ABORTED"
            if not f.propagated and f.stop != want:
                return "%s must end the run as %s" % (decision.upper(), want)
            if decision == "defer" and f.d.get("next_sleep_s") != delay:
                return "DEFER must report next_sleep_s equal to the delay"
            continue
        want = (["before_sleep"] if has_before else []) + ["sleeper"]
        if [e["k"] for e in acts] != want or acts[-1]["arg"] != delay or (has_before and acts[0]["sleep_s"] != delay):
            return "SLEEP must run before_sleep then exactly one sleeper call with the delay"
        if o is f.last and not f.propagated and f.ob["end_off"] < f.cfg["deadline_s"] - TOL:
            return "SLEEP was not followed by the next attempt"
    return None


def c_breaker(f):
    spec = f.cfg.get("breaker")
    if not spec:
        return None
    allows = [e for e in f.breaker if e["m"] == "allow"]
    records = [e for e in f.breaker if e["m"] != "allow"]
    if len(allows) > 1:
        return "breaker consulted more than once for one policy call"
    admitted = bool(allows) and allows[0]["ret"]
    if f.ob.get("call_index", 0) == 0 and allows:
        opened = spec.get("pre_failures", 0) >= spec["failure_threshold"]
        must_reject = opened and (spec.get("pre_age", 0.0) < spec["recovery_timeout_s"] or spec.get("probe_taken"))
        if must_reject == admitted:
            return "open breaker within recovery_timeout_s must reject; otherwise exactly one probe is admitted"
    if not admitted:
        if records:
            return "a call that was not admitted made a record_* call"
        if allows and f.ops:
            return "rejected call still invoked the operation"
        if allows and not ((f.d["mode"] == "raise" and f.d["type"] == "CircuitOpenError") or
                           (f.d["mode"] == "outcome" and not f.d["ok"] and f.d["attempts"] == 0)):
            return "rejection must surface as CircuitOpenError / a not-ok outcome with zero attempts"
        return None
    if len(records) != 1:
        return "admitted call made %d record_* calls instead of exactly one" % len(records)
    rec, d = records[0], f.d
    good = d["mode"] == "return" or (d["mode"] == "outcome" and d["ok"])
    cancelled = f.aborted or (d["mode"] == "raise" and d["type"] in CANCEL)
    want = "record_success" if good else "record_cancel" if cancelled else "record_failure"
    # an operation-raised CircuitOpenError (call) / RetryExhaustedError (execute) is settled as a cancel: tolerated
    nested = not STRICT_NESTED and f.last is not None and f.last["exc"] in NESTED and rec["m"] == "record_cancel"
    if rec["m"] != want and not nested and not (f.boom and not good):
        return "admitted call recorded %s, expected %s" % (rec["m"], want)
    if rec["m"] == "record_failure" and f.has_retry and f.last is not None and f.last["klass"] is not None \
            and not f.boom and rec["klass"] != f.last["klass"]:
        return "failure recorded with a class other than the final failure's"
    return None


def breaker_post(sc, res):
    spec, post = sc["config"].get("breaker"), res["post"]
    if not spec or post is None or spec.get("probe_taken"):
        return None
    if not post["allow_after_timeout"]:
        return "breaker left with a phantom probe: next call after recovery_timeout_s was rejected"
    first = Facts(sc, res["calls"][0])
    probe = [e for e in first.breaker if e["m"] == "allow" and e["ret"] and e["state"] == "half_open"]
    if probe and len(res["calls"]) == 1:
        rec = [e["m"] for e in first.breaker if e["m"] != "allow"]
        want = {"record_success": "closed", "record_failure": "open", "record_cancel": "half_open"}.get(rec[0] if rec else "")
        if want and post["state_after"] != want:
            return "probe result %s left the breaker %s instead of %s" % (rec[0], post["state_after"], want)
    return None


ORACLES = {"C01": c01, "C02": c02, "C03": c03, "C04": c04, "C05": c05, "C11": c11, "C13": c13, "C14": c14,
           "C16": c16, "C07": c_breaker, "C08": c_breaker, "C09": c_breaker}


def signature(sc, ob, with_breaker=True):
    """what C12 / C15 compare between runs of one scenario"""
    f = Facts(sc, ob)
    d = f.d
    if d["mode"] == "return" or (d["mode"] == "outcome" and d["ok"]):
        canon = ["ok", d.get("obj") or d.get("value")]
    elif f.aborted:
        canon = ["abort"]
    elif f.propagated:
        canon = ["propagate", d["type"], d["obj"]]
    elif d["mode"] == "raise" and d["obj"] is not None:
        canon = ["fail", f.stop, d["obj"], None]
    elif d["mode"] == "raise" and d["type"] != "RetryExhaustedError":
        canon = ["raise", d["type"]] if f.ops else ["fail", f.stop, None, None]   # max_attempts == 0
    else:
        canon = ["fail", d.get("stop_reason"), d.get("last_exception") or d.get("last_result"), d.get("next_sleep_s")]
    if not STRICT_NESTED and (f.boom or (f.last is not None and f.last["exc"] in NESTED)):
        with_breaker = False            # nested-policy / callback errors: call() and execute() settle differently
    sig = {
        "ops": [(o["i"], o["at"]) for o in f.ops],
        "strategy": [(s["which"], s["attempt"], s["klass"], s["prev"], repr(s["ret"])) for s in f.strats],
        "sleeps": [s["arg"] for s in f.sleeps],
        "events": [(e["event"], e["attempt"], e["sleep_s"], sorted(e["tags"].items())) for e in f.metrics],
        "logs": [(e["event"], sorted(e["fields"].items())) for e in f.logs],
        "tokens": [c["ok"] for c in f.consumes],
        "delivery": canon,
    }
    if with_breaker:
        sig["breaker"] = [(b["m"], b.get("ret"), b.get("klass")) for b in f.breaker]
    return sig


def diff(a, b):
    return next((k for k in a if k in b and a[k] != b[k]), None)


def check(prop, sc):
    """run sc as the property requires; return (violated clause or None, observation to print)"""
    if prop == "C15":
        quiet, loud = run_scenario(sc, raising=False), run_scenario(sc, raising=True)
        for a, b in zip(quiet["calls"], loud["calls"]):
            sa, sb = signature(sc, a), signature(sc, b)
            sa["timeline"], sb["timeline"] = a["delivery"].get("timeline"), b["delivery"].get("timeline")
            k = diff(sa, sb)
            if k:
                return "raising hooks changed the run's %s" % k, {"silent": a, "raising": b}
        return None, None
    if prop == "C12":
        base, runs = sc["entry"].split(".")[0], {}
        for cls in RETRY_ENTRIES:
            for method in ("call", "execute"):
                runs[cls + "." + method] = run_scenario(sc, entry=cls + "." + method)["calls"]
        ref_name = base + ".call"
        for name, calls in runs.items():
            both = all(n.split(".")[0] in ("Policy", "AsyncPolicy") for n in (name, ref_name))
            for a, b in zip(runs[ref_name], calls):
                sa, sb = signature(sc, a, both), signature(sc, b, both)
                if "breaker" not in sa or "breaker" not in sb:
                    sa.pop("breaker", None), sb.pop("breaker", None)
                k = diff(sa, sb)
                if k:
                    return "%s and %s differ in %s" % (ref_name, name, k), {ref_name: a, name: b}
        return None, None
    res = run_scenario(sc)
    for i, ob in enumerate(res["calls"]):
        ob["call_index"] = i
        msg = ORACLES[prop](Facts(sc, ob))
        if msg:
            return msg, ob
    if prop in BREAKER_PROPS:
        msg = breaker_post(sc, res)
        if msg:
            return msg, {"post": res["post"], "calls": res["calls"]}
    return None, None


# --------------------------------------------------------------------------------------------------
# Scenario generation
# --------------------------------------------------------------------------------------------------
def parse_hints(model, obligation):
    hints = {}
    for key, val in (model or {}).items() if isinstance(model, dict) else []:
        m = re.fullmatch(r"\s*\(?\s*(-?\d+(?:\.\d+)?)\s*(?:/\s*(\d+(?:\.\d+)?))?\s*\)?\s*", str(val))
        if not m or isinstance(val, bool):
            continue
        num = float(m.group(1)) / (float(m.group(2)) if m.group(2) else 1.0)
        k = str(key).lower()
        if "max_unknown" in k:
            hints["max_unknown_attempts"] = int(min(max(num, 0), 3))
        elif "max_attempts" in k and "per_class" not in k:
            hints["max_attempts"] = int(min(max(num, 0), 6))
        elif "deadline_s" in k:
            hints["deadline_s"] = min(max(num, 0.0), 20.0)
    text = json.dumps(model, default=str).lower()
    hints["preflight"] = "preflight" in text or "unadmitted" in str(obligation).lower()
    hints["nested"] = "nested" in text or "nested" in str(obligation).lower()
    return hints


def gen_attempt(rng, simple, specials=True):
    dur = rng.choice([0.0, 0.0, 0.0, 0.1, 0.25, 0.5, 1.0, 1e-6, 2.0])
    r = rng.random()
    if simple or r >= 0.40:
        klass = "TRANSIENT" if simple or rng.random() < 0.5 else rng.choice(CLASSES + (None,))
        a = {"kind": "exc", "exc": rng.choice(["ValueError", "TimeoutError"]), "klass": klass,
             "as_classification": rng.random() < 0.3, "retry_after_s": rng.choice([None, None, 0.5, 3.0])}
    elif r < 0.20:
        a = {"kind": "ok"}
    elif r < 0.33:
        a = {"kind": "result", "klass": rng.choice(CLASSES[:5] + ("TRANSIENT", "PERMANENT")),
             "as_classification": rng.random() < 0.3, "retry_after_s": rng.choice([None, 1.0])}
    elif specials:
        name = rng.choice(CANCEL + ("AbortRetryError", "RetryExhaustedError", "CircuitOpenError"))
        a = {"kind": "exc", "exc": name, "klass": rng.choice(["TRANSIENT", "UNKNOWN"]) if name == "CircuitOpenError" else None,
             "as_classification": False, "retry_after_s": None}
    else:
        a = {"kind": "ok"}
    a["duration"] = dur
    return a


def gen(rng, prop, hints, n):
    pool = {"C04": ["call"], "C11": ["execute"]}.get(prop, ["call", "execute"])
    classes = ["Policy", "AsyncPolicy"] if prop in BREAKER_PROPS else RETRY_ENTRIES
    entry = rng.choice(classes) + "." + rng.choice(pool)
    simple = rng.random() < 0.3
    m = rng.choice([1, 2, 2, 3, 3, 4, 1, 2, 5, 6, 0])
    hinted = n < 300 or rng.random() < 0.3
    if hinted and "max_attempts" in hints:
        m = hints["max_attempts"]
    attempts = [gen_attempt(rng, simple, specials=prop not in ("C12",) or rng.random() < 0.5) for _ in range(m + 1)]
    rets = [rng.choice([0.0, 0.1, 0.5, 1.0, 2.0, 30.0, 1e-6, "nan", "inf", "-inf", -1.0, 1e308, -1e308])
            for _ in range(rng.randint(1, 4))]
    if simple and rng.random() < 0.5:
        rets = [rng.choice([0.1, 1.0, 30.0])]
    deadline = rng.choice([20.0, 20.0, 20.0, 10.0, 5.0, 1.0, 0.5, 0.75, 0.0, 1e-6, 1e-7, 2.5e-7, 1.0000004, "hit", "hit"])
    if deadline == "hit":              # deadline exactly reached after k attempts (and perhaps one backoff)
        k = rng.randint(1, max(1, m))
        deadline = sum(a["duration"] for a in attempts[:k])
        first = fnum(rets[0])
        if rng.random() < 0.5 and math.isfinite(first) and 0 <= first <= 5:
            deadline += first
        deadline = min(deadline, 20.0)
    if hinted and "deadline_s" in hints:
        deadline = hints["deadline_s"]
    default = simple or rng.random() < 0.85
    class_strats = sorted(set(rng.sample(CLASSES[:5], rng.choice([0, 0, 1, 2])))) if not simple else []
    budget = None
    if rng.random() < 0.4:
        cap = rng.choice([0, 1, 1, 2, 3])
        budget = {"max_retries": cap, "window_s": rng.choice([100.0, 100.0, 1.0, 0.5]), "prefill": rng.randint(0, cap)}
    cfg = {
        "max_attempts": m, "deadline_s": deadline,
        "max_unknown_attempts": rng.choice([None, 0, 1, 2, 2, 3]),
        "per_class_max_attempts": {} if rng.random() < 0.7 else {rng.choice(CLASSES): rng.randint(0, 3)},
        "default_strategy": default, "class_strategies": class_strats, "budget": budget,
        "result_classifier": any(a["kind"] == "result" for a in attempts) or rng.random() < 0.2,
        "attempt_timeout_s": None, "policy_retry": True, "breaker": None,
    }
    if hinted and "max_unknown_attempts" in hints:
        cfg["max_unknown_attempts"] = hints["max_unknown_attempts"]
    polls = 2 * m + 3
    aborts = None
    if not simple and rng.random() < 0.45:
        aborts = [False] * polls
        if rng.random() < 0.8:
            aborts[rng.randrange(polls)] = True
    sc = {
        "entry": entry, "config": cfg, "attempts": attempts, "strategy_returns": rets,
        "legacy_strategy": rng.random() < 0.15, "abort_answers": aborts,
        "sleep_handler": None if simple or rng.random() < 0.5 else
        [rng.choice(["sleep", "sleep", "sleep", "defer", "abort"]) for _ in range(m + 1)],
        "before_sleep": rng.random() < 0.5,
        "overshoots": [rng.choice([0.0, 0.0, 0.0, 1e-6, 0.001, 0.5, 3.0]) for _ in range(rng.randint(1, 3))],
        "placement": {k: rng.choice(["call", "call", "policy", "both"]) for k in ("handler", "before_sleep", "sleeper")},
        "async_callbacks": rng.random() < 0.5, "hooks_raise": None, "callback_raises": None,
        "repeat": 2 if rng.random() < 0.15 else 1, "gap_s": rng.choice([0.0, 0.5, 2.0]),
    }
    if prop == "C15" or rng.random() < 0.15:
        pick = lambda: rng.choice(["all", [0], [1], [rng.randrange(4)], None])  # noqa: E731
        sc["hooks_raise"] = {"on_metric": pick(), "on_log": pick(), "before_sleep": pick()}
        if prop == "C15" and not any(sc["hooks_raise"].values()):
            sc["hooks_raise"]["on_metric"] = "all"
        sc["before_sleep"] = sc["before_sleep"] or prop == "C15"
    if prop in ("C11", "C12", "C13", "C08", "C04") and rng.random() < 0.1:
        sc["callback_raises"] = {"who": rng.choice(["strategy", "sleeper", "classifier", "result_classifier"]),
                                 "at": rng.choice([0, 0, 1]), "exc": rng.choice(["Boom", "Boom", "KeyboardInterrupt"])}
    if entry.split(".")[0] in ("Policy", "AsyncPolicy") and (prop in BREAKER_PROPS or rng.random() < 0.3):
        cfg["breaker"] = {"failure_threshold": rng.choice([1, 1, 2]), "window_s": 10.0, "recovery_timeout_s": 5.0,
                          "pre_failures": rng.choice([0, 0, 1, 2]), "pre_age": rng.choice([0.0, 1.0, 4.999, 5.0, 6.0]),
                          "probe_taken": rng.random() < 0.15}
        if prop == "C12":               # keep the breaker closed so breaker-less entry points stay comparable
            cfg["breaker"].update(failure_threshold=5, pre_failures=0, probe_taken=False)
        cfg["policy_retry"] = rng.random() < 0.7 if prop in BREAKER_PROPS + ("C15",) else True
        if not cfg["policy_retry"]:
            # pre-flight abort of a retry-less policy records a cancel without admission: known, opt-in only
            preflight = hints.get("preflight") and rng.random() < 0.5
            sc["abort_answers"] = [True] if preflight else rng.choice([None, [False]])
    return sc


# --------------------------------------------------------------------------------------------------
def clean(x, depth=0):
    if isinstance(x, float) and not math.isfinite(x):
        return repr(x)
    if isinstance(x, dict):
        return {str(k): clean(v, depth + 1) for k, v in x.items()}
    if isinstance(x, (list, tuple)):
        return [clean(v, depth + 1) for v in x[:120]]
    return x if isinstance(x, (int, float, str, bool, type(None))) else str(x)


def main():
    global R, STRICT_NESTED
    started = time.perf_counter()
    out = {"reproduced": None, "error": "no result"}
    try:
        warnings.simplefilter("ignore")
        req = json.loads(sys.stdin.read() or "{}")
        obligation = str(req.get("obligation") or "")
        found = re.search(r"C\d\d", obligation)
        prop = req.get("property") or (found.group(0) if found else None)
        if prop not in ORACLES and prop not in ("C12", "C15"):
            raise ValueError("unsupported or missing property id: %r" % (prop,))
        import redress
        R = redress
        budget_s = float(req.get("budget_s") or 20)
        rng = random.Random("%s/%s" % (req.get("seed", 0), prop))
        hints = parse_hints(req.get("model"), obligation)
        STRICT_NESTED = hints["nested"]
        stop_at = started + 0.8 * budget_s - 0.3
        tried, hit = 0, None
        fixed = [req["scenario"]] if req.get("scenario") else None
        while (tried < len(fixed)) if fixed else (tried < 60000 and (tried < 5 or time.perf_counter() < stop_at)):
            sc = fixed[tried] if fixed else gen(rng, prop, hints, tried)
            tried += 1
            msg, ob = check(prop, sc)
            if msg:
                hit = (sc, ob, msg)
                break
        out = {"reproduced": hit is not None, "property": prop, "scenarios_tried": tried,
               "scenario": clean(hit[0]) if hit else None, "observed": clean(hit[1]) if hit else None,
               "violated_clause": hit[2] if hit else None}
    except BaseException as exc:  # noqa: BLE001 - never crash
        import traceback
        out = {"reproduced": None, "error": "%s: %s" % (type(exc).__name__, exc),
               "where": traceback.format_exc().strip().splitlines()[-6:]}
    print(json.dumps(out, default=str))
    sys.exit(0)


if __name__ == "__main__":
    main()
