"""F6 (C02): inside the 1 microsecond rounding band of timedelta the literal deadline statement fails:
 (a) deadline_s = 1.0 and the sleeper lands at start + 1.0000004 -> another attempt is started although more than
     deadline_s has elapsed; (b) deadline_s = 1.0000006 -> a sleep of 1.000001 > deadline_s can be requested."""
import time

from _common import done, payload
from redress import ErrorClass, Retry

p = payload()
mode = p.get("mode", "attempt")
clock = {"t": 1000.0}
real_monotonic = time.monotonic
time.monotonic = lambda: clock["t"]
try:
    starts = []
    sleeps = []

    def op():
        starts.append(clock["t"] - 1000.0)
        raise ConnectionError("x")

    if mode == "attempt":
        def sleeper(s):
            sleeps.append(s)
            clock["t"] = 1000.0 + 1.0000004

        r = Retry(classifier=lambda e: ErrorClass.TRANSIENT, strategy=lambda ctx: 0.5, deadline_s=1.0, max_attempts=5)
        try:
            r.call(op, sleeper=sleeper)
        except ConnectionError:
            pass
        late = [t for t in starts[1:] if t > 1.0]
        time.monotonic = real_monotonic
        done(bool(late), attempt_start_offsets=starts, sleeps=sleeps, deadline_s=1.0)
    else:
        dl = 1.0000006

        def sleeper(s):
            sleeps.append(s)
            clock["t"] += s

        r = Retry(classifier=lambda e: ErrorClass.TRANSIENT, strategy=lambda ctx: 10.0, deadline_s=dl, max_attempts=3)
        try:
            r.call(op, sleeper=sleeper)
        except ConnectionError:
            pass
        time.monotonic = real_monotonic
        done(any(s > dl for s in sleeps), sleeps=sleeps, deadline_s=dl)
finally:
    time.monotonic = real_monotonic
