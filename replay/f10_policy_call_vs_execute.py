"""F10 (C12/C09): Policy.call() and Policy.execute() must leave the breaker in the same state for the same run.
 nested-ree:    the operation raises RetryExhaustedError (nested policy)        call -> failure   execute -> cancel
 callback:      the caller's strategy raises                                     call -> failure   execute -> cancel
 nested-open:   the operation's final failure is a nested CircuitOpenError       call -> cancel    execute -> failure"""
from _common import done, payload
from redress import CircuitBreaker, ErrorClass, Policy, Retry
from redress.errors import CircuitOpenError, RetryExhaustedError, StopReason

p = payload()
variant = p.get("variant", "nested-ree")


class Spy(CircuitBreaker):
    def __init__(self):
        super().__init__(failure_threshold=100, window_s=100.0, recovery_timeout_s=5.0)
        self.log = []

    def record_success(self):
        self.log.append("success")
        return super().record_success()

    def record_failure(self, klass):
        self.log.append("failure:" + klass.name)
        return super().record_failure(klass)

    def record_cancel(self):
        self.log.append("cancel")
        return super().record_cancel()


def run(entry):
    b = Spy()

    def strategy(ctx):
        if variant == "callback":
            raise ValueError("strategy bug")
        return 0.0

    def op():
        if variant == "nested-ree":
            raise RetryExhaustedError(stop_reason=StopReason.MAX_ATTEMPTS_GLOBAL, attempts=3, last_class=ErrorClass.SERVER_ERROR,
                                      last_exception=None, last_result="x")
        if variant == "nested-open":
            raise CircuitOpenError("open")
        raise ConnectionError("x")

    r = Retry(classifier=lambda e: ErrorClass.TRANSIENT, strategy=strategy, max_attempts=1 if variant == "nested-open" else 3)
    pol = Policy(retry=r, circuit_breaker=b)
    try:
        getattr(pol, entry)(op, sleeper=lambda s: None)
    except BaseException:  # noqa
        pass
    return b.log


a, e = run("call"), run("execute")
done(a != e, variant=variant, call_records=a, execute_records=e)
