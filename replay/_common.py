"""helpers for native replays (run under /venv/bin/python with PYTHONPATH=<tree>/src)"""
import json
import sys


def payload():
    try:
        return json.loads(sys.stdin.read() or "{}")
    except Exception:
        return {}


def done(reproduced, **info):
    print(json.dumps({"reproduced": bool(reproduced), **info}, default=str))
    sys.exit(0)
