"""Value universe of the symbolic executor.

Concrete Python values (None, bool, int, float, str, tuple, list, dict) are used as they are.
Everything symbolic wraps z3 terms.
"""
from __future__ import annotations

import itertools
import z3

_counter = itertools.count(1)


_per_prefix = {}


def fresh_name(prefix: str) -> str:
    """fresh symbol name, numbered per prefix: the k-th symbol of a given kind has the same name on every path and on
    both sides of a product proof, independent of unrelated allocations in between"""
    n = _per_prefix.get(prefix, 0) + 1
    _per_prefix[prefix] = n
    return f"{prefix}!{n}"


_idents = itertools.count(1)
_site_counts = {}
_site_used = {}


def next_ident():
    return next(_idents)


def site_ident(site: str) -> int:
    """identity of an object created by library code: a function of the creation site and its occurrence number, so
    that the same object has the same identity on both sides of a product proof regardless of other allocations"""
    import zlib
    k = _site_counts.get(site, 0) + 1
    _site_counts[site] = k
    key = f"{site}#{k}"
    v = 5 * 10**6 + zlib.crc32(key.encode())
    other = _site_used.setdefault(v, key)
    if other != key:  # hash collision: fall back to a fresh number (never silently alias two objects)
        v = 9 * 10**9 + next(_idents)
    return v


def reset_names():
    global _counter, _idents
    _counter = itertools.count(1)
    _idents = itertools.count(1)
    _per_prefix.clear()
    _site_counts.clear()
    _site_used.clear()


class Sym:
    """Scalar symbolic value. ty in {'int','real','bool','str'}.
    'real' is a *finite* Python float under assumption A1 (exact real arithmetic)."""
    __slots__ = ("t", "ty")

    def __init__(self, t, ty):
        self.t = t
        self.ty = ty

    def __repr__(self):
        return f"Sym<{self.ty}>({self.t})"


# extended-real float: k: 0 finite, 1 +inf, 2 -inf, 3 nan ; v real payload (meaningful when k==0)
FIN, PINF, NINF, NAN = 0, 1, 2, 3


class SFloat:
    __slots__ = ("k", "v")

    def __init__(self, k, v):
        self.k = k
        self.v = v

    def __repr__(self):
        return f"SFloat(k={self.k}, v={self.v})"


class SOpt:
    """Lazily optional value: `none` is a z3 Bool; `val` the payload when not None."""
    __slots__ = ("none", "val")

    def __init__(self, none, val):
        self.none = none
        self.val = val

    def __repr__(self):
        return f"SOpt({self.none}, {self.val!r})"


class EnumVal:
    """Member of a repo Enum class; t is a z3 term of the enum's sort."""
    __slots__ = ("cls", "t")

    def __init__(self, cls, t):
        self.cls = cls
        self.t = t

    def __repr__(self):
        return f"Enum<{self.cls.name}>({self.t})"


class Obj:
    """Instance of a repo class (or an exception instance when cls_t is set).
    ident: z3 Int term used for `is` comparisons."""

    def __init__(self, cls, fields=None, ident=None, frozen=False, cls_t=None, tag=None):
        self.cls = cls
        self.fields = fields if fields is not None else {}
        self.ident = ident if ident is not None else z3.IntVal(next_ident() + 10**6)
        self.frozen = frozen
        self.cls_t = cls_t  # exception leaf term (z3) when this is an exception instance
        self.tag = tag

    def __repr__(self):
        n = self.cls.name if self.cls is not None else f"exc:{self.cls_t}"
        return f"Obj<{n}>#{self.ident}"


class Ref:
    """Opaque object (user result etc.): identity only."""
    __slots__ = ("t", "truthy")

    def __init__(self, t, truthy=None):
        self.t = t
        self.truthy = truthy

    def __repr__(self):
        return f"Ref({self.t})"


class FuncV:
    def __init__(self, info, closure=None, defaults=None):
        self.info = info
        self.closure = closure  # Env of the defining frame
        self.defaults = defaults

    def __repr__(self):
        return f"FuncV({self.info.key})"


class LambdaV:
    def __init__(self, node, env, module):
        self.node = node
        self.env = env
        self.module = module


class BoundV:
    def __init__(self, self_obj, func):
        self.self_obj = self_obj
        self.func = func  # FuncV

    def __repr__(self):
        return f"BoundV({self.self_obj!r}, {self.func!r})"


class EnvFn:
    """User/environment callable with an assumed contract (registered by tag)."""

    def __init__(self, tag, ident=None, attrs=None):
        self.tag = tag
        self.ident = ident if ident is not None else z3.IntVal(next_ident() + 2 * 10**6)
        self.attrs = attrs or {}

    def __repr__(self):
        return f"EnvFn({self.tag})"


class ClassV:
    def __init__(self, info):
        self.info = info

    def __repr__(self):
        return f"ClassV({self.info.key})"


class ExtV:
    """External (stdlib) object referenced by dotted name, e.g. 'time.monotonic', 'TimeoutError'."""

    def __init__(self, name):
        self.name = name

    def __repr__(self):
        return f"ExtV({self.name})"

    def __eq__(self, o):
        return isinstance(o, ExtV) and o.name == self.name

    def __hash__(self):
        return hash(("ExtV", self.name))


class ModuleV:
    def __init__(self, name, internal):
        self.name = name
        self.internal = internal

    def __repr__(self):
        return f"ModuleV({self.name})"


class DequeV:
    """deque[float]: arr[lo..hi) over z3 Array Int Real."""

    def __init__(self, arr, lo, hi, ident=None):
        self.arr = arr
        self.lo = lo
        self.hi = hi
        self.ident = ident if ident is not None else z3.IntVal(next_ident() + 3 * 10**6)

    def __repr__(self):
        return f"DequeV(lo={self.lo},hi={self.hi})"


class EnumMap:
    """dict keyed by members of one enum; slots: member name -> value.
    missing: value returned for absent keys by __getitem__ (defaultdict) or None."""

    def __init__(self, cls, slots, defaultdict=False):
        self.cls = cls
        self.slots = slots
        self.defaultdict = defaultdict


class EnumSet:
    """set of enum members: member name -> z3 Bool / bool."""

    def __init__(self, cls, slots):
        self.cls = cls
        self.slots = slots


class TimeDelta:
    """datetime.timedelta as an exact real number of seconds that is a whole number of microseconds."""
    __slots__ = ("s",)

    def __init__(self, s):
        self.s = s


class LockV:
    def __init__(self):
        self.held = False
        self.acquisitions = 0


class AnyV:
    """Arbitrary built-in value (C19/C20): tagged union.
    tag: z3 term of sort AnyTag; i: Int payload, f: SFloat payload, s: String payload, b: Bool payload,
    truthy: Bool for containers/objects."""

    def __init__(self, tag, i, fk, fv, s, b, truthy, name=""):
        self.tag = tag
        self.i = i
        self.fk = fk
        self.fv = fv
        self.s = s
        self.b = b
        self.truthy = truthy
        self.name = name


class Undefined:
    pass


UNDEF = Undefined()


class PySet:
    def __init__(self, items):
        self.items = tuple(items)


class GenExp:
    def __init__(self, node, env):
        self.node = node
        self.env = env


class MethodRef:
    """Bound method of a built-in container / model object."""

    def __init__(self, obj, attr):
        self.obj = obj
        self.attr = attr

    def __repr__(self):
        return f"MethodRef({self.obj!r}.{self.attr})"


class Absentable:
    """attribute that may be absent: getattr(obj, name, default) yields default when `absent`"""

    def __init__(self, absent, val):
        self.absent = absent
        self.val = val


class SeqV:
    """immutable sequence of symbolic length whose i-th element is elem(i) (built from uninterpreted functions)"""

    def __init__(self, length, elem, name="seq"):
        self.length = length
        self.elem = elem
        self.name = name


class OpaqueArgs:
    """`.args` of an exception object whose constructor arguments are unknown (only usable as `*exc.args`)"""

    def __init__(self, owner):
        self.owner = owner


class PartialV:
    """functools.partial(func, *args, **kwargs)"""

    def __init__(self, func, args, kwargs):
        self.func, self.args, self.kwargs = func, tuple(args), dict(kwargs)
