"""Assumed contracts of stdlib functions used by the code under verification.

Each is an *assumption* (listed in every evidence file).  Clock: A3 — time.monotonic() is
non-decreasing; every call yields a fresh reading >= the previous one (ghost 'now')."""
from __future__ import annotations

import z3

from . import ops
from .ops import rterm, wrap_real
from .path import Unsupported
from .values import SFloat, Sym, TimeDelta, fresh_name, FIN

TRUSTED = {}


def trusted(name, text):
    TRUSTED[name] = text


def install_clock(interp, names=("time.monotonic",)):
    """time.monotonic(): fresh reading t with t >= ghost now; ghost now := t."""

    def monotonic(it, args, kwargs, node):
        g = it.path.ghost
        # named by call site: the k-th reading *at a given source location* is the same symbol on both sides of a product
        site = f"{it.frames[-1].func.qualname}:{getattr(node, 'lineno', 0)}" if it.frames and it.frames[-1].func else "?"
        t = z3.Real(fresh_name(f"now@{site}"))
        if "now" in g:
            it.path.assume(t >= g["now"])
        g["now"] = t
        g["clock_reads"] = g.get("clock_reads", 0) + 1
        return Sym(t, "real")

    for n in names:
        interp.ext_models[n] = monotonic

    def wall(it, args, kwargs, node):
        # wall-clock sources can jump arbitrarily: a fresh unconstrained reading every time
        g = it.path.ghost
        g["wall_clock_reads"] = g.get("wall_clock_reads", 0) + 1
        return Sym(z3.Real(fresh_name("wall")), "real")

    for n in ("time.time", "time.perf_counter", "time.process_time", "time.time_ns"):
        interp.ext_models.setdefault(n, wall)
    trusted("time.monotonic", "A3: non-decreasing; each call returns some value >= the previous reading")


def install_timedelta(interp):
    """timedelta(seconds=x): x rounded to a whole number of microseconds (|err| <= 0.5us, monotone)."""

    def timedelta(it, args, kwargs, node):
        if set(kwargs) - {"seconds", "days"} or len(args) > 1:
            raise Unsupported("timedelta(...) form")
        days = args[0] if args else kwargs.get("days", 0)
        x = kwargs.get("seconds", 0)
        if isinstance(days, (int, float)) and isinstance(x, (int, float)):
            return TimeDelta(ops.rv(round((days * 86400 + x) * 10**6) / 10**6))
        return make_timedelta(it, rterm(x) + rterm(days) * 86400)

    interp.ext_models["datetime.timedelta"] = timedelta
    trusted("datetime.timedelta",
            "timedelta(seconds=x) = x rounded to the nearest microsecond (error <= 0.5us; exact on multiples of 1us); "
            "subtraction/comparison/total_seconds exact")


def make_timedelta(it, x):
    """rounded value s of x: |s - x| <= 0.5us and rounding is monotone w.r.t. every other rounding on this path.
    (Integrality of s in microseconds is deliberately not assumed: weaker assumption, linear real arithmetic only.)"""
    site = f"{it.frames[-1].func.qualname}" if it.frames and it.frames[-1].func else "?"
    s = z3.Real(fresh_name(f"td@{site}"))
    it.path.assume(z3.And(s - x <= z3.RealVal("1/2000000"), x - s <= z3.RealVal("1/2000000")))
    lst = it.path.ghost.setdefault("td_list", [])
    for (xi, si) in lst[-6:]:
        it.path.assume(z3.And(z3.Implies(x >= xi, s >= si), z3.Implies(x <= xi, s <= si)))
    lst.append((x, s))
    return TimeDelta(s)


def fresh_timedelta(it, name="td"):
    return TimeDelta(z3.Real(fresh_name(name)))


def install_math(interp):
    def isfinite(it, args, kwargs, node):
        v = it.force_num(args[0])
        k = ops.kind(v)
        if k in ("int", "real"):
            if isinstance(v, float):
                import math
                return math.isfinite(v)
            return True
        if k == "xf":
            return ops.wrap_bool(ops.to_sfloat(v).k == FIN)
        raise Unsupported(f"isfinite({v!r})")

    interp.ext_models["math.isfinite"] = isfinite
    trusted("math.isfinite", "exact on the extended-real model")
