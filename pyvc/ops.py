"""Primitive operations over the value universe (arithmetic, comparison, truthiness, merge)."""
from __future__ import annotations

import math
from fractions import Fraction

import z3

from .path import Unsupported
from .values import (FIN, NAN, NINF, PINF, AnyV, BoundV, ClassV, DequeV, EnumMap, EnumSet, EnumVal,
                     EnvFn, ExtV, FuncV, LambdaV, Obj, Ref, SFloat, SOpt, Sym, TimeDelta, fresh_name)

DBL_MAX = Fraction(1.7976931348623157e308)
DBL_MAX_R = z3.RealVal(str(DBL_MAX))


def rv(x) -> z3.ArithRef:
    """python number -> exact z3 Real"""
    if isinstance(x, bool):
        x = int(x)
    if isinstance(x, int):
        return z3.RealVal(x)
    fr = Fraction(x)
    return z3.RealVal(f"{fr.numerator}/{fr.denominator}")


def is_num(v):
    return isinstance(v, (int, float)) and not isinstance(v, bool) or isinstance(v, bool) or (
        isinstance(v, Sym) and v.ty in ("int", "real", "bool")) or isinstance(v, SFloat)


def conc_float_to_sfloat(x: float) -> SFloat:
    if math.isnan(x):
        return SFloat(z3.IntVal(NAN), z3.RealVal(0))
    if math.isinf(x):
        return SFloat(z3.IntVal(PINF if x > 0 else NINF), z3.RealVal(0))
    return SFloat(z3.IntVal(FIN), rv(x))


def to_sfloat(v) -> SFloat:
    if isinstance(v, SFloat):
        return v
    if isinstance(v, bool):
        return SFloat(z3.IntVal(FIN), z3.RealVal(int(v)))
    if isinstance(v, int):
        return SFloat(z3.IntVal(FIN), z3.RealVal(v))
    if isinstance(v, float):
        return conc_float_to_sfloat(v)
    if isinstance(v, Sym):
        if v.ty == "int":
            return SFloat(z3.IntVal(FIN), z3.ToReal(v.t))
        if v.ty == "real":
            return SFloat(z3.IntVal(FIN), v.t)
        if v.ty == "bool":
            return SFloat(z3.IntVal(FIN), z3.If(v.t, z3.RealVal(1), z3.RealVal(0)))
    raise Unsupported(f"to_sfloat({v!r})")


def kind(v):
    """'int' | 'real' | 'xf' | None"""
    if isinstance(v, bool):
        return "int"
    if isinstance(v, int):
        return "int"
    if isinstance(v, float):
        return "real" if math.isfinite(v) else "xf"
    if isinstance(v, Sym):
        if v.ty in ("int", "bool"):
            return "int"
        if v.ty == "real":
            return "real"
    if isinstance(v, SFloat):
        return "xf"
    return None


def term(v):
    """z3 arithmetic term of a finite numeric value (Int or Real sorted)."""
    if isinstance(v, bool):
        return z3.IntVal(int(v))
    if isinstance(v, int):
        return z3.IntVal(v)
    if isinstance(v, float):
        return rv(v)
    if isinstance(v, Sym):
        if v.ty == "bool":
            return z3.If(v.t, z3.IntVal(1), z3.IntVal(0))
        return v.t
    raise Unsupported(f"term({v!r})")


def rterm(v):
    t = term(v)
    return z3.ToReal(t) if t.sort() == z3.IntSort() else t


def is_concrete_num(v):
    return isinstance(v, (int, float))


def _range_wrap(v_real):
    """finite real result -> SFloat with overflow to +-inf (IEEE + - * /)."""
    k = z3.If(v_real > DBL_MAX_R, z3.IntVal(PINF), z3.If(v_real < -DBL_MAX_R, z3.IntVal(NINF), z3.IntVal(FIN)))
    return k


def xf_add(a: SFloat, b: SFloat, sub=False) -> SFloat:
    bk = b.k
    if sub:
        bk = z3.If(b.k == PINF, z3.IntVal(NINF), z3.If(b.k == NINF, z3.IntVal(PINF), b.k))
        bv = -b.v
    else:
        bv = b.v
    isnan = z3.Or(a.k == NAN, bk == NAN, z3.And(a.k == PINF, bk == NINF), z3.And(a.k == NINF, bk == PINF))
    v = a.v + bv
    k = z3.If(isnan, z3.IntVal(NAN),
              z3.If(z3.Or(a.k == PINF, bk == PINF), z3.IntVal(PINF),
                    z3.If(z3.Or(a.k == NINF, bk == NINF), z3.IntVal(NINF), _range_wrap(v))))
    return SFloat(z3.simplify(k), v)


def xf_mul(a: SFloat, b: SFloat) -> SFloat:
    a_zero = z3.And(a.k == FIN, a.v == 0)
    b_zero = z3.And(b.k == FIN, b.v == 0)
    a_inf = z3.Or(a.k == PINF, a.k == NINF)
    b_inf = z3.Or(b.k == PINF, b.k == NINF)
    isnan = z3.Or(a.k == NAN, b.k == NAN, z3.And(a_inf, b_zero), z3.And(b_inf, a_zero))
    a_neg = z3.Or(a.k == NINF, z3.And(a.k == FIN, a.v < 0))
    b_neg = z3.Or(b.k == NINF, z3.And(b.k == FIN, b.v < 0))
    neg = z3.Xor(a_neg, b_neg)
    v = a.v * b.v
    k = z3.If(isnan, z3.IntVal(NAN),
              z3.If(z3.Or(a_inf, b_inf), z3.If(neg, z3.IntVal(NINF), z3.IntVal(PINF)), _range_wrap(v)))
    return SFloat(z3.simplify(k), v)


def xf_cmp(op, a: SFloat, b: SFloat):
    """IEEE comparison as z3 Bool. op in '<','<=','>','>=','==','!='"""
    anynan = z3.Or(a.k == NAN, b.k == NAN)
    # order key: -inf < finite < +inf
    def lt(x, y):
        return z3.Or(
            z3.And(x.k == NINF, y.k != NINF),
            z3.And(x.k == FIN, y.k == PINF),
            z3.And(x.k == FIN, y.k == FIN, x.v < y.v),
        )

    def eq(x, y):
        return z3.Or(z3.And(x.k == FIN, y.k == FIN, x.v == y.v), z3.And(x.k == PINF, y.k == PINF),
                     z3.And(x.k == NINF, y.k == NINF))

    if op == "<":
        r = lt(a, b)
    elif op == ">":
        r = lt(b, a)
    elif op == "<=":
        r = z3.Or(lt(a, b), eq(a, b))
    elif op == ">=":
        r = z3.Or(lt(b, a), eq(a, b))
    elif op == "==":
        r = eq(a, b)
    elif op == "!=":
        return z3.simplify(z3.Or(anynan, z3.Not(eq(a, b))))
    else:
        raise Unsupported(op)
    return z3.simplify(z3.And(z3.Not(anynan), r))


def wrap_bool(t):
    if isinstance(t, bool):
        return t
    t = z3.simplify(t)
    if z3.is_true(t):
        return True
    if z3.is_false(t):
        return False
    return Sym(t, "bool")


def wrap_int(t):
    t = z3.simplify(t)
    if z3.is_int_value(t):
        return t.as_long()
    return Sym(t, "int")


def wrap_real(t):
    return Sym(z3.simplify(t), "real")


def bterm(v):
    """z3 Bool of a python bool / Sym bool"""
    if isinstance(v, bool):
        return z3.BoolVal(v)
    if isinstance(v, Sym) and v.ty == "bool":
        return v.t
    raise Unsupported(f"bterm({v!r})")


def sterm(v):
    if isinstance(v, str):
        return z3.StringVal(v)
    if isinstance(v, Sym) and v.ty == "str":
        return v.t
    raise Unsupported(f"sterm({v!r})")


def ident_of(v):
    """z3 Int identity of an object-like value (for `is`)."""
    if isinstance(v, (Obj, EnvFn, DequeV)):
        return v.ident
    if isinstance(v, Ref):
        return v.t
    return None


def merge(cond, a, b):
    """Value-level ITE: cond ? a : b (cond a z3 Bool)."""
    if a is b:
        return a
    if isinstance(cond, bool):
        return a if cond else b
    ka, kb = kind(a), kind(b)
    if ka and kb:
        if ka == "xf" or kb == "xf":
            x, y = to_sfloat(a), to_sfloat(b)
            return SFloat(z3.simplify(z3.If(cond, x.k, y.k)), z3.simplify(z3.If(cond, x.v, y.v)))
        if ka == "int" and kb == "int" and not _is_boolish(a) and not _is_boolish(b):
            return wrap_int(z3.If(cond, term(a), term(b)))
        if _is_boolish(a) and _is_boolish(b):
            return wrap_bool(z3.If(cond, bterm(a), bterm(b)))
        return wrap_real(z3.If(cond, rterm(a), rterm(b)))
    if isinstance(a, EnumVal) and isinstance(b, EnumVal) and a.cls == b.cls:
        return EnumVal(a.cls, z3.simplify(z3.If(cond, a.t, b.t)))
    if a is None and b is None:
        return None
    # optionals
    na, va = opt_parts(a)
    nb, vb = opt_parts(b)
    if va is None and vb is None:
        return None
    if va is None:
        return SOpt(z3.simplify(z3.If(cond, na, nb)), vb)
    if vb is None:
        return SOpt(z3.simplify(z3.If(cond, na, nb)), va)
    if not isinstance(a, SOpt) and not isinstance(b, SOpt):
        raise Unsupported(f"cannot merge {a!r} / {b!r}")
    inner = merge(cond, va, vb)
    none = z3.simplify(z3.If(cond, na, nb))
    if z3.is_false(none):
        return inner
    return SOpt(none, inner)


def _is_boolish(v):
    return isinstance(v, bool) or (isinstance(v, Sym) and v.ty == "bool")


def opt_parts(v):
    if v is None:
        return z3.BoolVal(True), None
    if isinstance(v, SOpt):
        return v.none, v.val
    return z3.BoolVal(False), v


def merge_fail(cond, a, b):
    raise Unsupported(f"cannot merge {a!r} / {b!r}")
