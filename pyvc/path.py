"""One symbolic execution path, with replay-based forking, plus the solver front end."""
from __future__ import annotations

import time
import z3


def _has_quantifier(f, _seen=None):
    if z3.is_quantifier(f):
        return True
    _seen = _seen if _seen is not None else set()
    if f.get_id() in _seen:
        return False
    _seen.add(f.get_id())
    return any(_has_quantifier(c, _seen) for c in f.children())


class Unsupported(Exception):
    """Construct outside the supported subset -> undecided (exit 2), never a violation."""


class PathEnd(Exception):
    """This path is finished (infeasible assumption or loop back-edge)."""


class Obligation:
    __slots__ = ("name", "status", "time", "model", "backend", "prop", "path_id", "detail")

    def __init__(self, name, status, t, model=None, backend="z3", prop=None, path_id=None, detail=None):
        self.name = name
        self.status = status  # 'discharged' | 'failed' | 'undecided'
        self.time = t
        self.model = model
        self.backend = backend
        self.prop = prop
        self.path_id = path_id
        self.detail = detail

    def to_json(self):
        return {
            "name": self.name,
            "status": self.status,
            "time_s": round(self.time, 5),
            "backend": self.backend,
            "prop": self.prop,
            "path": self.path_id,
            "model": self.model,
            "detail": self.detail,
        }


class SolverFront:
    def __init__(self, timeout_ms=10000):
        self.timeout_ms = timeout_ms
        self.s = z3.Solver()
        self.s.set("timeout", timeout_ms)
        self.checks = 0
        self.time = 0.0
        self.axioms = []

    def add_axiom(self, f):
        self.axioms.append(f)

    def check(self, assumptions):
        """sat/unsat/unknown of the conjunction."""
        t0 = time.time()
        self.s.push()
        try:
            for a in self.axioms:
                self.s.add(a)
            for a in assumptions:
                self.s.add(a)
            r = self.s.check()
            m = None
            if r == z3.sat:
                m = self.s.model()
            reason = self.s.reason_unknown() if r == z3.unknown else None
        finally:
            self.s.pop()
        self.checks += 1
        self.time += time.time() - t0
        return r, m, reason

    def check_cvc5(self, assumptions, timeout_s=20):
        """Second opinion through SMT-LIB on /usr/bin/cvc5 (used on z3 `unknown`)."""
        import subprocess
        import tempfile
        s2 = z3.Solver()
        for a in self.axioms:
            s2.add(a)
        for a in assumptions:
            s2.add(a)
        smt = "(set-logic ALL)\n" + s2.to_smt2()
        with tempfile.NamedTemporaryFile("w", suffix=".smt2", delete=True) as f:
            f.write(smt)
            f.flush()
            try:
                out = subprocess.run(
                    ["/usr/bin/cvc5", "--strings-exp", f"--tlimit={int(timeout_s*1000)}", f.name],
                    capture_output=True, text=True, timeout=timeout_s + 5,
                ).stdout.strip().splitlines()
            except Exception:
                return "unknown"
        if out and out[0] in ("sat", "unsat"):
            return out[0]
        return "unknown"


class Path:
    """State of one path.  Forking is by re-execution: `prefix` holds the decisions to replay."""

    def __init__(self, solver: SolverFront, prefix, path_id):
        self.solver = solver
        self.prefix = list(prefix)
        self.taken = []
        self.alts = []  # new prefixes discovered
        self.pc = []
        self.known = {}  # ast id -> bool  (literals already decided on this path)
        self.obligations = []
        self.path_id = path_id
        self.ghost = {}
        self.trace = []
        self.notes = []
        self.covers = set()
        self.check_obligations = True
        self.choices = []  # (label, value) of every n-ary environment choice, in order
        self.quantified = False  # set by harnesses whose contracts contain quantifiers
        self.stop_at = None  # frontier exploration: end the path before making decision number stop_at
        self.guide_choices = None  # guided co-execution: the environment choices of the other side, to be followed in order
        self.guide_i = 0
        self.guide_mismatch = None
        self.s_full = z3.Solver()
        self.s_full.set("timeout", solver.timeout_ms)
        self.s_qf = z3.Solver()
        self.s_qf.set("timeout", 3000)

    def _add_pc(self, f):
        self.pc.append(f)
        self.s_full.add(f)
        if not (self.quantified and _has_quantifier(f)):
            self.s_qf.add(f)

    def _check(self, solver, extra):
        t0 = time.time()
        solver.push()
        try:
            for e in extra:
                solver.add(e)
            r = solver.check()
            m = solver.model() if r == z3.sat else None
            reason = solver.reason_unknown() if r == z3.unknown else None
        finally:
            solver.pop()
        self.solver.checks += 1
        self.solver.time += time.time() - t0
        return r, m, reason

    def guide(self, pc, choices):
        """Guided co-execution (relational proofs): run under the other side's path condition and follow its environment
        choices in order.  Branches the other side's path condition decides are forced; the rest fork as usual."""
        for f in pc:
            self._add_pc(f)
            self._learn(f, True)
        self.guide_choices = list(choices)
        self.guide_i = 0

    # -- path condition ------------------------------------------------
    def assume(self, f):
        if isinstance(f, bool):
            if not f:
                raise PathEnd("assume False")
            return
        f = z3.simplify(f)
        if z3.is_true(f):
            return
        if z3.is_false(f):
            raise PathEnd("assume False")
        self._add_pc(f)
        self._learn(f, True)

    def assume_checked(self, f):
        """assume and end the path if it became infeasible."""
        self.assume(f)
        r, _, _ = self._check(self.s_qf, [])
        if r == z3.unsat:
            raise PathEnd("infeasible")

    def _learn(self, f, val):
        self.known[f.get_id()] = val
        if val and z3.is_and(f):
            for c in f.children():
                self._learn(c, True)
        if z3.is_not(f):
            self._learn(f.arg(0), not val)

    def feasible(self, f):
        # quantified conjuncts are dropped for feasibility: an over-approximation (more paths, never fewer)
        r, _, _ = self._check(self.s_qf, [f])
        return r != z3.unsat

    # -- forking --------------------------------------------------------
    def _next_decision(self):
        i = len(self.taken)
        if i < len(self.prefix):
            return self.prefix[i]
        return None

    def branch(self, cond) -> bool:
        if isinstance(cond, bool):
            return cond
        c = z3.simplify(cond)
        if z3.is_true(c):
            return True
        if z3.is_false(c):
            return False
        k = self.known.get(c.get_id())
        if k is not None:
            return k
        d = self._next_decision()
        if d is None and self.stop_at is not None and len(self.taken) >= self.stop_at:
            raise PathEnd("frontier")
        if d is None:
            t = self.feasible(c)
            f = self.feasible(z3.Not(c))
            if t and f:
                self.alts.append(self.taken + [0])
                d = 1
            elif t:
                d = 1
            elif f:
                d = 0
            else:
                raise PathEnd("infeasible")
        self.taken.append(d)
        lit = c if d else z3.Not(c)
        self._add_pc(lit)
        self._learn(c, bool(d))
        return bool(d)

    def choose(self, n, label="") -> int:
        """n-ary nondeterministic choice (no feasibility filtering)."""
        if self.guide_choices is not None:
            i = self.guide_i
            if i < len(self.guide_choices) and self.guide_choices[i][0] == label and self.guide_choices[i][1] < n:
                d = self.guide_choices[i][1]
                self.guide_i += 1
                self.choices.append((label, d))
                if n > 1:
                    self.taken.append(d)
                return d
            self.guide_mismatch = {"asked": label, "position": i,
                                   "other_side": self.guide_choices[i][0] if i < len(self.guide_choices) else None}
            raise PathEnd("guide-mismatch")
        if n == 1:
            self.choices.append((label, 0))
            return 0
        d = self._next_decision()
        if d is None and self.stop_at is not None and len(self.taken) >= self.stop_at:
            raise PathEnd("frontier")
        if d is None:
            for i in range(1, n):
                self.alts.append(self.taken + [i])
            d = 0
        self.taken.append(d)
        self.choices.append((label, d))
        return d

    # -- obligations ------------------------------------------------------
    def oblige(self, name, f, prop=None, detail=None):
        if not self.check_obligations:
            return
        t0 = time.time()
        if isinstance(f, bool):
            if f:
                st, model = "discharged", None
            else:
                # still need the path to be feasible for this to be a failure
                r, m, _ = self._check(self.s_full, [])
                st, model = ("failed", self._model(m)) if r == z3.sat else (
                    ("discharged", None) if r == z3.unsat else ("undecided", None))
            self.obligations.append(Obligation(name, st, time.time() - t0, model, "z3", prop, self.path_id, detail))
            return st == "discharged"
        fs = z3.simplify(f)
        if z3.is_true(fs):
            self.obligations.append(Obligation(name, "discharged", time.time() - t0, None, "simplify", prop, self.path_id, detail))
            return True
        r, m, reason = self._check(self.s_full, [z3.Not(fs)])
        backend = "z3"
        if r == z3.unknown:
            r2 = self.solver.check_cvc5(self.pc + [z3.Not(fs)])
            backend = "cvc5"
            if r2 == "unsat":
                r = z3.unsat
            elif r2 == "sat":
                r = z3.sat
                m = None
        if r == z3.unsat:
            st, model = "discharged", None
        elif r == z3.sat:
            st, model = "failed", self._model(m)
        else:
            st, model = "undecided", {"reason": str(reason)}
        self.obligations.append(Obligation(name, st, time.time() - t0, model, backend, prop, self.path_id, detail))
        return st == "discharged"

    def cover(self, name):
        """Reachability cover: recorded only if the path condition is satisfiable here (vacuity guard)."""
        if name in self.covers:
            return
        r, _, _ = self._check(self.s_qf, [])
        if r == z3.sat:
            self.covers.add(name)

    def _model(self, m):
        if m is None:
            return None
        out = {}
        spec = getattr(self, "replay_spec", None)
        if spec is not None:
            try:
                out["__replay__"] = spec(m)
            except Exception as e:  # the raw model is still reported
                out["__replay_error__"] = str(e)[:200]
        for d in m.decls():
            try:
                out[d.name()] = str(m[d])
            except Exception:
                pass
        return out
