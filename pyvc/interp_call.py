"""Call handling mixin: repo functions (inline or by contract), classes, builtins, containers."""
from __future__ import annotations

import ast

import z3

from . import ops
from .excs import EXT_CLASS_NAMES
from .interp_expr import Env, PyRaise
from .ops import bterm, kind, rterm, term, to_sfloat, wrap_bool, wrap_int, wrap_real
from .path import PathEnd, Unsupported
from .values import (OpaqueArgs, PartialV, FIN, NAN, UNDEF, AnyV, BoundV, ClassV, DequeV, EnumMap, EnumSet, EnumVal, EnvFn, ExtV,
                     FuncV, GenExp, LambdaV, LockV, MethodRef, ModuleV, Obj, PySet, Ref, SFloat, SOpt, Sym,
                     TimeDelta, fresh_name)


class ReturnSig(Exception):
    def __init__(self, value):
        self.value = value


class CallMixin:
    # ------------------------------------------------------------------ Call expression
    def e_Call(self, node, env):
        # super().__init__(...)
        if (isinstance(node.func, ast.Attribute) and isinstance(node.func.value, ast.Call)
                and isinstance(node.func.value.func, ast.Name) and node.func.value.func.id == "super"):
            return self.call_super(node, env)
        fv = self.eval(node.func, env)
        args = []
        for a in node.args:
            if isinstance(a, ast.Starred):
                sv = self.eval(a.value, env)
                if isinstance(sv, OpaqueArgs):
                    args.append(sv)
                else:
                    args.extend(self.iterate(sv))
            else:
                args.append(self.eval(a, env))
        kwargs = {}
        for kw in node.keywords:
            if kw.arg is None:
                d = self.eval(kw.value, env)
                if not isinstance(d, dict):
                    raise Unsupported("** non-dict")
                kwargs.update(d)
            else:
                kwargs[kw.arg] = self.eval(kw.value, env)
        return self.call_value(fv, args, kwargs, node, env)

    def call_super(self, node, env):
        meth = node.func.attr
        cls = env.func.cls
        self_obj = env.lookup("self")
        for c in self.tree.mro(cls)[1:]:
            if meth in c.methods:
                args = [self.eval(a, env) for a in node.args]
                kwargs = {kw.arg: self.eval(kw.value, env) for kw in node.keywords}
                return self.call_function(FuncV(c.methods[meth]), [self_obj] + args, kwargs)
        # external base (e.g. Exception.__init__)
        return None

    def call_value(self, fv, args, kwargs, node=None, env=None):
        fv = self.force(fv)
        if fv is None:
            self.raise_builtin("TypeError", node)
        if isinstance(fv, FuncV):
            return self.call_function(fv, args, kwargs, node)
        if isinstance(fv, BoundV):
            return self.call_function(fv.func, [fv.self_obj] + list(args), kwargs, node)
        if isinstance(fv, LambdaV):
            return self.call_lambda(fv, args, kwargs)
        if isinstance(fv, ClassV):
            return self.construct(fv.info, args, kwargs, node)
        if isinstance(fv, PartialV):
            return self.call_value(fv.func, list(fv.args) + list(args), {**fv.kwargs, **kwargs}, node, env)
        if isinstance(fv, EnvFn):
            h = self.env_models.get(fv.tag)
            if h is None:
                raise Unsupported(f"no env model for {fv.tag}")
            return h(self, fv, args, kwargs, node)
        if isinstance(fv, ExtV):
            return self.call_ext(fv.name, args, kwargs, node, env)
        if isinstance(fv, MethodRef):
            return self.call_method(fv.obj, fv.attr, args, kwargs, node)
        if isinstance(fv, tuple) and len(fv) == 2 and fv[0] == "typeof" and isinstance(fv[1], Obj) and fv[1].cls_t is not None:
            # type(exc)(...): user-defined constructor of an unknown exception class -- a new object of the same
            # class, or whatever that constructor raises
            if self.path.branch(z3.Bool(fresh_name("ctor_raises"))):
                raise PyRaise(self.fresh_exc("ctor_exc", origin="raised-by-code"), node=node)
            o = Obj(None, {"__traceback__": None, "__cause__": None}, ident=z3.Int(fresh_name("copy_id")), cls_t=fv[1].cls_t)
            o.tag = "raised-by-code"
            self.path.assume(o.ident != fv[1].ident)
            return o
        if isinstance(fv, Obj) and fv.cls is not None:
            m = self.tree.find_method(fv.cls, "__call__")
            if m is not None:
                return self.call_function(FuncV(m), [fv] + list(args), kwargs, node)
        raise Unsupported(f"call of {fv!r}")

    # ------------------------------------------------------------------ repo functions
    def bind_args(self, fnode, args, kwargs, env, defaults_env):
        a = fnode.args
        params = [p.arg for p in a.posonlyargs + a.args]
        vals = {}
        args = list(args)
        if len(args) > len(params) and a.vararg is None:
            raise Unsupported("too many positional args")
        for name, v in zip(params, args):
            vals[name] = v
        if a.vararg is not None:
            vals[a.vararg.arg] = tuple(args[len(params):])
        kw = dict(kwargs)
        for name in params[len(args):] + [p.arg for p in a.kwonlyargs]:
            if name in kw:
                vals[name] = kw.pop(name)
        # defaults
        pos_defaults = a.defaults
        for i, d in enumerate(pos_defaults):
            name = params[len(params) - len(pos_defaults) + i]
            if name not in vals:
                vals[name] = self.eval(d, defaults_env)
        for p, d in zip(a.kwonlyargs, a.kw_defaults):
            if p.arg not in vals:
                if d is None:
                    raise Unsupported(f"missing kw-only argument {p.arg}")
                vals[p.arg] = self.eval(d, defaults_env)
        if a.kwarg is not None:
            vals[a.kwarg.arg] = kw
            kw = {}
        if kw:
            raise Unsupported(f"unexpected kwargs {list(kw)}")
        for name in params:
            if name not in vals:
                raise Unsupported(f"missing argument {name}")
        env.vars.update(vals)

    def call_function(self, fv: FuncV, args, kwargs, node=None):
        info = fv.info
        key = info.key
        contract = self.contracts.get(key)
        if contract is not None and key not in self.inline_override:
            self.contracts_applied.add(key)
            return contract(self, fv, args, kwargs, node)
        if self.depth > 60:
            raise Unsupported("recursion depth")
        for d in getattr(info, "decorators", ()) or ():
            # a decorator replaces the function: only the ones whose effect the engine implements may be skipped over
            dn = ast.unparse(d)
            if not (dn in ("property", "classmethod", "staticmethod", "overload", "abstractmethod") or dn.startswith("functools.wraps(")
                    or dn.endswith(".setter")):
                raise Unsupported(f"decorator @{dn} on {key}: its effect on the function is not modelled")
        env = Env(info, info.module, parent=fv.closure)
        self.bind_args(info.node, args, kwargs, env, Env(None, info.module, parent=fv.closure))
        self.functions_entered.add(key)
        self.depth += 1
        self.frames.append(env)
        try:
            try:
                self.exec_block(info.node.body, env)
                result = None
            except ReturnSig as r:
                result = r.value
        finally:
            self.depth -= 1
            self.frames.pop()
        if info.is_async:
            # calling an async def returns a coroutine; we model call+await as one step (awaited immediately
            # at every call site in scope; checked syntactically by the harnesses)
            return ("coro_done", result)
        return result

    def call_lambda(self, lv: LambdaV, args, kwargs):
        env = Env(lv.env.func, lv.module, parent=lv.env)
        self.bind_args(lv.node, args, kwargs, env, lv.env)
        return self.eval(lv.node.body, env)

    def await_value(self, v, node=None):
        if isinstance(v, tuple) and len(v) == 2 and v[0] == "coro_done":
            self.await_point(node)
            return v[1]
        if isinstance(v, tuple) and len(v) == 2 and v[0] == "awaitable":
            return v[1](node)
        if hasattr(v, "thunk"):
            return v.thunk(node)
        raise Unsupported(f"await of {v!r}")

    def await_point(self, node):
        h = self.ext_models.get("await_point")
        if h is not None:
            h(self, node)

    # ------------------------------------------------------------------ construction
    def construct(self, ci, args, kwargs, node=None):
        h = self.class_models.get(ci.key)
        if h is not None:
            return h(self, ci, args, kwargs, node)
        if ci.is_enum:
            # StopReason(value): member by value, ValueError otherwise
            vals = self.enum_values(ci)
            v = self.force(args[0])
            if isinstance(v, EnumVal) and v.cls == ci:
                return v
            if isinstance(v, (str, int)):
                for n, x in vals.items():
                    if x == v:
                        return self.enum_member(ci, n)
                self.raise_builtin("ValueError", node)
            if isinstance(v, Sym) and v.ty == "str" and all(isinstance(x, str) for x in vals.values()):
                hit = z3.Or([v.t == z3.StringVal(x) for x in vals.values()])
                if not self.path.branch(hit):
                    self.raise_builtin("ValueError", node)
                names = list(vals)
                out = self.enum_const(ci, names[-1])
                for n in reversed(names[:-1]):
                    out = z3.If(v.t == z3.StringVal(vals[n]), self.enum_const(ci, n), out)
                return EnumVal(ci, z3.simplify(out))
            raise Unsupported("enum by value")
        is_exc = self.lattice.is_exc_class(ci)
        from .values import site_ident
        fr = self.frames[-1].func.qualname if self.frames and self.frames[-1].func else "?"
        obj = Obj(ci, {}, frozen=ci.frozen, ident=z3.IntVal(site_ident(f"{ci.name}@{fr}:{getattr(node, 'lineno', 0)}")))
        if is_exc:
            obj.cls_t = self.lattice.const[ci.name]
            obj.fields["args"] = tuple(args)
            obj.fields["__traceback__"] = None
            obj.fields["__cause__"] = None
        init = self.tree.find_method(ci, "__init__")
        if init is not None:
            self.call_function(FuncV(init), [obj] + list(args), kwargs, node)
            return obj
        if any(c.is_dataclass for c in self.tree.mro(ci)):
            fields = self.tree.dataclass_fields(ci)
            vals = {}
            pos = list(args)
            inits = []
            for (name, default, ann) in fields:
                init_flag = True
                if isinstance(default, ast.Call) and isinstance(default.func, ast.Name) and default.func.id == "field":
                    for kw in default.keywords:
                        if kw.arg == "init" and isinstance(kw.value, ast.Constant) and kw.value.value is False:
                            init_flag = False
                inits.append((name, default, init_flag))
            kw = dict(kwargs)
            for (name, default, init_flag) in inits:
                if init_flag and pos:
                    vals[name] = pos.pop(0)
                elif init_flag and name in kw:
                    vals[name] = kw.pop(name)
                else:
                    vals[name] = self.dataclass_default(ci, name, default)
            if pos or kw:
                raise Unsupported(f"bad dataclass construction {ci.name}")
            obj.fields.update(vals)
            return obj
        if args or kwargs:
            if is_exc:
                return obj
            raise Unsupported(f"construct {ci.name} with args but no __init__")
        return obj

    def dataclass_default(self, ci, name, default):
        if default is None:
            raise Unsupported(f"missing dataclass field {ci.name}.{name}")
        env = Env(None, ci.module)
        if isinstance(default, ast.Call) and isinstance(default.func, ast.Name) and default.func.id == "field":
            for kw in default.keywords:
                if kw.arg == "default_factory":
                    fac = self.eval(kw.value, env)
                    return self.call_value(fac, [], {})
                if kw.arg == "default":
                    return self.eval(kw.value, env)
            raise Unsupported("field() without default")
        return self.eval(default, env)

    # ------------------------------------------------------------------ exceptions
    def make_exc(self, pyname, args=()):
        cls = EXT_CLASS_NAMES[pyname] if isinstance(pyname, str) else pyname
        o = Obj(None, {"args": tuple(args), "__traceback__": None, "__cause__": None},
                cls_t=self.lattice.leaf_for_class(cls))
        o.tag = "raised-by-code"
        return o

    def raise_builtin(self, pyname, node=None):
        raise PyRaise(self.make_exc(pyname), node=node)

    def fresh_exc(self, prefix="exc", origin=None):
        t = z3.Const(fresh_name(prefix + "_cls"), self.lattice.sort)
        o = Obj(None, {"__traceback__": Ref(z3.Int(fresh_name("tb"))), "__cause__": None},
                ident=z3.Int(fresh_name(prefix + "_id")), cls_t=t)
        o.tag = origin
        return o

    def isinstance_value(self, v, target):
        """returns python bool or z3 Bool"""
        v = self.force(v)
        if isinstance(target, tuple) and len(target) == 3 and target[0] == "union":
            target = (target[1], target[2])
        if isinstance(target, tuple):
            conds = [self.isinstance_value(v, t) for t in target]
            if any(c is True for c in conds):
                return True
            cs = [c for c in conds if c is not False]
            if not cs:
                return False
            return z3.Or([c if not isinstance(c, bool) else z3.BoolVal(c) for c in cs])
        if isinstance(v, AnyV):
            return self.any_isinstance(v, target)
        if isinstance(target, ClassV):
            ci = target.info
            if isinstance(v, Obj):
                if v.cls_t is not None and self.lattice.is_exc_class(ci):
                    return z3.simplify(self.lattice.isinstance_cond(v.cls_t, ci))
                if v.cls is not None:
                    return ci in self.tree.mro(v.cls)
                return False
            if isinstance(v, EnumVal):
                return v.cls == ci
            return False
        if isinstance(target, ExtV):
            nm = target.name
            if nm in EXT_CLASS_NAMES:
                if isinstance(v, Obj) and v.cls_t is not None:
                    return z3.simplify(self.lattice.isinstance_cond(v.cls_t, EXT_CLASS_NAMES[nm]))
                return False
            if nm == "int":
                return isinstance(v, (int, bool)) or (isinstance(v, Sym) and v.ty in ("int", "bool"))
            if nm == "float":
                return isinstance(v, float) or isinstance(v, SFloat) or (isinstance(v, Sym) and v.ty == "real")
            if nm == "str":
                return isinstance(v, str) or (isinstance(v, Sym) and v.ty == "str")
            if nm == "bool":
                return isinstance(v, bool) or (isinstance(v, Sym) and v.ty == "bool")
            if nm == "type":
                return isinstance(v, (ClassV,)) or (isinstance(v, ExtV) and v.name in EXT_CLASS_NAMES)
            if nm in ("collections.abc.Mapping", "Mapping"):
                return isinstance(v, (dict, EnumMap))
            h = self.ext_models.get("isinstance:" + nm)
            if h is not None:
                return h(self, v)
        raise Unsupported(f"isinstance(_, {target!r})")

    # ------------------------------------------------------------------ builtins / stdlib
    def call_ext(self, name, args, kwargs, node, env):
        h = self.ext_models.get(name)
        if h is not None:
            return h(self, args, kwargs, node)
        if name in EXT_CLASS_NAMES:
            return self.make_exc(name, args)
        if name == "isinstance":
            r = self.isinstance_value(args[0], args[1])
            return r if isinstance(r, bool) else wrap_bool(r)
        if name == "len":
            v = self.force(args[0])
            if isinstance(v, (tuple, list, dict, str)):
                return len(v)
            if isinstance(v, DequeV):
                return wrap_int(v.hi - v.lo)
            if isinstance(v, Sym) and v.ty == "str":
                return wrap_int(z3.Length(v.t))
            raise Unsupported(f"len({v!r})")
        if name == "getattr":
            obj, attr = args[0], args[1]
            if not isinstance(attr, str):
                raise Unsupported("getattr with symbolic name")
            default = args[2] if len(args) > 2 else UNDEF
            return self.getattr_value(obj, attr, node, default=default)
        if name == "contextlib.suppress":
            return ("suppress",) + tuple(args)
        if name == "functools.partial":
            return PartialV(args[0], args[1:], kwargs)
        if name == "setattr":
            if not isinstance(args[1], str):
                raise Unsupported("setattr with symbolic name")
            self.setattr_value(args[0], args[1], args[2], node)
            return None
        if name == "object.__setattr__":
            if not isinstance(args[1], str):
                raise Unsupported("object.__setattr__ with symbolic name")
            self.setattr_value(args[0], args[1], args[2], node, raw=True)
            return None
        if name == "hasattr":
            sentinel = object()
            try:
                r = self.getattr_value(args[0], args[1], node, default=sentinel)
            except Unsupported:
                raise
            return r is not sentinel
        if name == "callable":
            v = self.force(args[0])
            if isinstance(v, (FuncV, BoundV, LambdaV, EnvFn, ClassV, MethodRef, PartialV)):
                return True
            if v is None or isinstance(v, (int, float, str, Sym, SFloat, EnumVal)):
                return False
            if isinstance(v, AnyV):
                return self.any_callable(v)
            if isinstance(v, Ref):
                return False
            raise Unsupported(f"callable({v!r})")
        if name in ("max", "min"):
            return self.minmax(name, args, node)
        if name == "float":
            return self.to_float(args[0], node)
        if name == "round":
            # round(x, n) on a finite real: some real within half a unit of the n-th decimal of x, of x's sign (the decimal grid and
            # banker's ties are not modelled: an over-approximation, so a proof covers every value CPython can return)
            v = self.force(args[0])
            nd = args[1] if len(args) > 1 else kwargs.get("ndigits")
            if isinstance(v, (int, float)) and not isinstance(v, bool) and (nd is None or (isinstance(nd, int) and not isinstance(nd, bool))):
                return round(v, nd) if nd is not None else round(v)
            if isinstance(v, Sym) and v.ty == "real" and isinstance(nd, int) and not isinstance(nd, bool):
                r = z3.Real(fresh_name("round"))
                half = z3.Q(5, 10 ** (nd + 1)) if nd >= 0 else z3.RealVal(5 * 10 ** (-nd - 1))
                self.path.assume(z3.And(r - v.t <= half, v.t - r <= half, z3.Implies(v.t >= 0, r >= 0), z3.Implies(v.t <= 0, r <= 0)))
                return wrap_real(r)
            if isinstance(v, SFloat) and isinstance(nd, int) and not isinstance(nd, bool):
                # extended real: inf and nan are returned unchanged by round(x, n); the finite case as above
                r = z3.Real(fresh_name("round"))
                half = z3.Q(5, 10 ** (nd + 1)) if nd >= 0 else z3.RealVal(5 * 10 ** (-nd - 1))
                self.path.assume(z3.And(r - v.v <= half, v.v - r <= half, z3.Implies(v.v >= 0, r >= 0), z3.Implies(v.v <= 0, r <= 0)))
                return SFloat(v.k, r)
            raise Unsupported(f"round({v!r}, {nd!r})")
        if name == "bool":
            t = self.truth(args[0])
            return t if isinstance(t, bool) else wrap_bool(t)
        if name == "range":
            return ("range",) + tuple(args)
        if name == "dict":
            if not args:
                return dict(kwargs)
            v = self.force(args[0])
            if isinstance(v, dict):
                return dict(v)
            if isinstance(v, EnumMap):
                return EnumMap(v.cls, dict(v.slots), v.defaultdict)
            if isinstance(v, (list, tuple, GenExp)):
                out = {}
                for pair in self.iterate(v):
                    k, x = pair
                    out[k] = x
                out.update(kwargs)
                return out
            raise Unsupported("dict(...)")
        if name == "dict.fromkeys":
            src = self.force(args[0])
            val = args[1] if len(args) > 1 else None
            if isinstance(src, EnumMap):
                # same value object for every present key (aliasing is real: the slots share `val`)
                slots = {}
                for n, v in src.slots.items():
                    if v is None or v is UNDEF:
                        continue
                    slots[n] = SOpt(v.none, val) if isinstance(v, SOpt) else val
                return EnumMap(src.cls, slots, False)
            if isinstance(src, dict):
                return {k: val for k in src}
            raise Unsupported("dict.fromkeys source")
        if name in ("set", "frozenset"):  # immutability of a frozenset is not modelled (a write to one would be an AttributeError)
            if not args:
                return PySet(())
            v = self.force(args[0])
            if isinstance(v, EnumSet):
                return EnumSet(v.cls, dict(v.slots))
            if isinstance(v, PySet):
                return PySet(v.items)
            if isinstance(v, (tuple, list)):
                return self.eval_set_items(list(v))
            raise Unsupported("set(...)")
        if name == "tuple":
            if not args:
                return ()
            return tuple(self.iterate(args[0]))
        if name == "list":
            if not args:
                return []
            return list(self.iterate(args[0]))
        if name == "type":
            v = self.force(args[0])
            return ("typeof", v)
        if name in ("any", "all"):
            # short-circuit over the elements in order (a generator's element expressions are evaluated lazily, as in CPython)
            want = name == "any"
            for v in self.lazy_iterate(args[0]):
                if self.is_true(v) == want:
                    return want
            return not want
        if name == "next":
            if isinstance(args[0], GenExp):
                r = self.next_over_symbolic(args[0], args[1] if len(args) > 1 else UNDEF, node)
                if r is not UNDEF:
                    return r[0]
            for v in self.lazy_iterate(args[0]):
                return v
            if len(args) > 1:
                return args[1]
            self.raise_builtin("StopIteration", node)
        if name == "enumerate":
            start = args[1] if len(args) > 1 else kwargs.get("start", 0)
            return [(start + i, v) for i, v in enumerate(self.iterate(args[0]))]
        if name == "zip":
            return list(zip(*[self.iterate(a) for a in args]))
        if name == "sum":
            items = self.iterate(args[0])
            acc = 0
            for it in items:
                acc = self.binop("+", acc, it)
            return acc
        if name == "str":
            v = self.force(args[0]) if args else ""
            return self.to_str(v, node)
        if name == "int":
            return self.to_int(args[0], node)
        if name in ("typing.cast", "cast"):
            return args[1]
        if name in ("collections.deque", "deque"):
            if args:
                raise Unsupported("deque(iterable)")
            return DequeV(z3.K(z3.IntSort(), z3.RealVal(0)), z3.IntVal(0), z3.IntVal(0))
        if name in ("threading.Lock", "threading.RLock"):
            return LockV()
        if name == "collections.defaultdict":
            return ("defaultdict", args[0] if args else None)
        if name == "object":
            return Obj(None, {})
        raise Unsupported(f"external call {name}")

    def minmax(self, name, args, node):
        if len(args) == 1:
            args = self.iterate(args[0])
        args = [self.force_num(a) for a in args]
        if any(kind(a) is None for a in args):
            raise Unsupported(f"{name} of non-numbers")
        out = args[0]
        for b in args[1:]:
            # CPython: max keeps the first unless b > out ; min keeps the first unless b < out
            c = self.order(">" if name == "max" else "<", b, out)
            if isinstance(c, bool):
                out = b if c else out
            else:
                out = ops.merge(bterm(c), b, out)
        return out

    def to_float(self, v, node):
        v = self.force(v)
        if isinstance(v, (float, SFloat)):
            return v
        if isinstance(v, bool):
            return float(v)
        if isinstance(v, int):
            try:
                return float(v)
            except OverflowError:
                self.raise_builtin("OverflowError", node)
        if isinstance(v, Sym):
            if v.ty == "real":
                return v
            if v.ty == "bool":
                return wrap_real(z3.If(v.t, z3.RealVal(1), z3.RealVal(0)))
            if v.ty == "int":
                h = self.ext_models.get("float(int)")
                if h is not None:
                    return h(self, v, node)
                return wrap_real(z3.ToReal(v.t))
        if isinstance(v, AnyV):
            return self.any_to_float(v, node)
        raise Unsupported(f"float({v!r})")

    def to_int(self, v, node):
        h = self.ext_models.get("int()")
        if h is not None:
            return h(self, v, node)
        if isinstance(v, int):
            return v
        if isinstance(v, Sym) and v.ty == "int":
            return v
        raise Unsupported(f"int({v!r})")

    def to_str(self, v, node):
        if isinstance(v, AnyV):
            return self.any_to_str(v)
        if isinstance(v, str):
            return v
        if isinstance(v, Sym) and v.ty == "str":
            return v
        if isinstance(v, (int, float)) and not isinstance(v, bool):
            try:
                return str(v)
            except ValueError:  # int beyond CPython's str() digit limit
                self.raise_builtin("ValueError", node)
        h = self.ext_models.get("str()")
        if h is not None:
            return h(self, v, node)
        raise Unsupported(f"str({v!r})")

    # ------------------------------------------------------------------ container methods
    def call_method(self, obj, attr, args, kwargs, node):
        if isinstance(obj, DequeV):
            if attr == "append":
                x = args[0]
                obj.arr = z3.Store(obj.arr, obj.hi, rterm(x))
                self.note_mutation(obj, "append")
                obj.hi = z3.simplify(obj.hi + 1)
                return None
            if attr == "popleft":
                if not self.path.branch(obj.hi > obj.lo):
                    self.raise_builtin("IndexError", node)
                v = wrap_real(z3.Select(obj.arr, obj.lo))
                obj.lo = z3.simplify(obj.lo + 1)
                self.note_mutation(obj)
                return v
            if attr == "clear":
                obj.lo = obj.hi
                self.note_mutation(obj, "clear")
                return None
            if attr == "extend":
                src = args[0]
                if isinstance(src, (list, tuple)):
                    for x in src:
                        self.call_method(obj, "append", [x], {}, node)
                    return None
                if isinstance(src, GenExp):
                    # deque.extend(<elt> for _ in range(n)) with a side-effect-free elt that does not use the loop variable:
                    # n copies of elt are appended (n <= 0: none)
                    g = src.node.generators[0] if len(src.node.generators) == 1 else None
                    it_ = g.iter if g is not None else None
                    names_in_elt = {x.id for x in ast.walk(src.node.elt) if isinstance(x, ast.Name)}
                    tgt = {x.id for x in ast.walk(g.target) if isinstance(x, ast.Name)} if g is not None else set()
                    if (g is not None and not g.ifs and isinstance(it_, ast.Call) and isinstance(it_.func, ast.Name) and it_.func.id == "range"
                            and len(it_.args) == 1 and not it_.keywords and isinstance(src.node.elt, (ast.Name, ast.Constant))
                            and not (names_in_elt & tgt)):
                        nv = self.eval(it_.args[0], src.env)
                        if not (isinstance(nv, int) or (isinstance(nv, Sym) and nv.ty == "int")):
                            raise Unsupported("range() of a non-int in deque.extend")
                        elt = self.eval(src.node.elt, src.env)
                        nt = z3.IntVal(nv) if isinstance(nv, int) else nv.t
                        cnt = z3.If(nt > 0, nt, z3.IntVal(0))
                        i = z3.Int("i!extend")
                        obj.arr = z3.Lambda([i], z3.If(z3.And(i >= obj.hi, i < obj.hi + cnt), rterm(elt), z3.Select(obj.arr, i)))
                        self.note_mutation(obj, "append")
                        obj.hi = z3.simplify(obj.hi + cnt)
                        return None
                raise Unsupported("deque.extend of this iterable")
        if isinstance(obj, EnumMap):
            if attr == "get":
                default = args[1] if len(args) > 1 else None
                return self.enummap_get(obj, args[0], default=default, node=node)
            if attr == "clear":
                obj.slots.clear()
                self.note_mutation(obj)
                return None
            if attr == "keys":
                present = {}
                for n, _ in obj.cls.enum_members:
                    v = obj.slots.get(n, UNDEF)
                    if v is UNDEF or v is None:
                        present[n] = False
                    elif isinstance(v, SOpt):
                        present[n] = wrap_bool(z3.Not(v.none))
                    else:
                        present[n] = True
                return EnumSet(obj.cls, present)
            if attr == "items":
                out = []
                for n, _ in obj.cls.enum_members:
                    v = obj.slots.get(n, UNDEF)
                    if v is UNDEF or v is None:
                        continue
                    if isinstance(v, SOpt):
                        if self.path.branch(v.none):
                            continue
                        v = v.val
                    out.append((self.enum_member(obj.cls, n), v))
                return out
        if isinstance(obj, EnumSet):
            if attr == "update":
                other = args[0]
                if isinstance(other, (list, tuple)) and all(isinstance(x, EnumVal) for x in other):
                    for x in other:
                        nm = self.enum_concrete_name(x)
                        if nm is None:
                            raise Unsupported("update with symbolic member")
                        obj.slots[nm] = True
                    return None
                if isinstance(other, EnumMap):  # set.update(<dict>) adds the keys
                    other = self.call_method(other, "keys", [], {}, node)
                if isinstance(other, dict) and all(isinstance(k, EnumVal) for k in other):
                    return self.call_method(obj, "update", [list(other.keys())], {}, node)
                if isinstance(other, EnumSet):
                    for n in obj.slots:
                        a, b = obj.slots[n], other.slots[n]
                        ta = z3.BoolVal(a) if isinstance(a, bool) else bterm(a)
                        tb = z3.BoolVal(b) if isinstance(b, bool) else bterm(b)
                        obj.slots[n] = wrap_bool(z3.Or(ta, tb))
                    return None
        if isinstance(obj, dict):
            if attr == "get" and isinstance(args[0], AnyV):
                # hash(key) first: unhashable containers / bytearrays raise TypeError; then lookup by equality
                v = args[0]
                default = args[1] if len(args) > 1 else None
                if self.path.branch(self.any_is(v, "Container", "Bytes")):
                    if self.path.choose(2, "unhashable-key") == 1:
                        self.raise_builtin("TypeError", node)
                    return default
                for kk, val in obj.items():
                    if isinstance(kk, (int, float, str)) or kk is None:
                        r = self.eq(v, kk)
                        if self.path.branch(self.truth(r) if not isinstance(r, bool) else r):
                            return val
                return default
            if attr == "get" and (args[0] is None or isinstance(args[0], (bool, float, bytes))):
                return obj.get(args[0], args[1] if len(args) > 1 else None)
            if attr == "get" and isinstance(args[0], (list, dict, set, bytearray, PySet)):
                self.raise_builtin("TypeError", node)  # unhashable key
            if attr == "get":
                k = self.dict_key(args[0])
                if k is not None:
                    return obj.get(k, args[1] if len(args) > 1 else None)
                if not obj:
                    return args[1] if len(args) > 1 else None
            if attr == "clear":
                obj.clear()
                return None
            if attr == "items":
                return list(obj.items())
            if attr == "values":
                return list(obj.values())
            if attr == "keys":
                return list(obj.keys())
            if attr == "update":
                obj.update(args[0])
                return None
        if isinstance(obj, list):
            if attr == "append":
                obj.append(args[0])
                return None
        if isinstance(obj, TimeDelta) and attr == "total_seconds":
            return wrap_real(obj.s)
        if isinstance(obj, str) or (isinstance(obj, Sym) and obj.ty == "str"):
            h = self.ext_models.get("str." + attr)
            if h is not None:
                return h(self, obj, args, node)
            if isinstance(obj, str):
                if attr == "lower":
                    return obj.lower()
                if attr == "strip":
                    return obj.strip()
                if attr == "startswith" and isinstance(args[0], str):
                    return obj.startswith(args[0])
        raise Unsupported(f"method {attr} on {obj!r}")

    def note_mutation(self, obj, what=None):
        for h in self.mutation_hooks:
            h(self, obj, what)
