"""Loader for the real redress source tree.

Every run parses /repo/src/redress/**/*.py from the current working tree (or the
tree named by REDRESS_SRC).  Nothing is copied into /verif; functions are located
by ``module:qualname`` and their source segment is hashed for the evidence file.
"""
from __future__ import annotations

import ast
import hashlib
import os
from dataclasses import dataclass, field
from pathlib import Path

SRC_ROOT = Path(os.environ.get("REDRESS_SRC", "/repo/src"))
PKG = "redress"


@dataclass
class FuncInfo:
    module: "ModuleInfo"
    qualname: str
    node: ast.AST  # FunctionDef | AsyncFunctionDef | Lambda
    cls: "ClassInfo | None" = None
    is_async: bool = False
    decorators: list = field(default_factory=list)

    @property
    def key(self) -> str:
        return f"{self.module.name}:{self.qualname}"

    def segment(self) -> str:
        return ast.get_source_segment(self.module.text, self.node) or ""

    def sha(self) -> str:
        return hashlib.sha256(self.segment().encode()).hexdigest()[:16]

    def __repr__(self):
        return f"<Func {self.key}>"


@dataclass
class ClassInfo:
    module: "ModuleInfo"
    name: str
    node: ast.ClassDef
    bases: list  # list of ast exprs
    methods: dict = field(default_factory=dict)  # name -> FuncInfo
    fields: list = field(default_factory=list)  # dataclass fields: (name, default_ast|None, annotation_ast)
    is_dataclass: bool = False
    frozen: bool = False
    is_enum: bool = False
    enum_members: list = field(default_factory=list)  # (name, value_ast)
    class_attrs: dict = field(default_factory=dict)  # name -> ast value

    @property
    def key(self) -> str:
        return f"{self.module.name}:{self.name}"

    def __repr__(self):
        return f"<Class {self.key}>"

    def __hash__(self):
        return hash(self.key)

    def __eq__(self, other):
        return isinstance(other, ClassInfo) and other.key == self.key


@dataclass
class ModuleInfo:
    name: str
    path: Path
    text: str
    tree: ast.Module
    functions: dict = field(default_factory=dict)  # qualname -> FuncInfo
    classes: dict = field(default_factory=dict)  # name -> ClassInfo
    imports: dict = field(default_factory=dict)  # local name -> ("module", modname) | ("attr", modname, attr)
    assigns: dict = field(default_factory=dict)  # module-level NAME = expr

    def __repr__(self):
        return f"<Module {self.name}>"


class SourceTree:
    def __init__(self, root: Path | None = None):
        self.root = Path(root) if root else SRC_ROOT
        self.modules: dict[str, ModuleInfo] = {}
        self._load()

    # ------------------------------------------------------------------
    def _load(self):
        base = self.root / PKG
        for p in sorted(base.rglob("*.py")):
            rel = p.relative_to(self.root).with_suffix("")
            parts = list(rel.parts)
            if parts[-1] == "__init__":
                parts = parts[:-1]
                is_pkg = True
            else:
                is_pkg = False
            name = ".".join(parts)
            text = p.read_text()
            tree = ast.parse(text, filename=str(p))
            m = ModuleInfo(name=name, path=p, text=text, tree=tree)
            m.is_pkg = is_pkg
            self.modules[name] = m
        for m in self.modules.values():
            self._index(m)

    def _resolve_rel(self, m: ModuleInfo, level: int, module: str | None) -> str:
        if level == 0:
            return module or ""
        parts = m.name.split(".")
        if not m.is_pkg:
            parts = parts[:-1]
        if level > 1:
            parts = parts[: -(level - 1)]
        if module:
            parts = parts + module.split(".")
        return ".".join(parts)

    def _index(self, m: ModuleInfo):
        for node in m.tree.body:
            self._index_stmt(m, node)

    def _index_stmt(self, m, node):
        if isinstance(node, ast.Import):
            for a in node.names:
                local = a.asname or a.name.split(".")[0]
                m.imports[local] = ("module", a.name if a.asname else a.name.split(".")[0])
        elif isinstance(node, ast.ImportFrom):
            mod = self._resolve_rel(m, node.level, node.module)
            for a in node.names:
                local = a.asname or a.name
                m.imports[local] = ("attr", mod, a.name)
        elif isinstance(node, (ast.FunctionDef, ast.AsyncFunctionDef)):
            if any(isinstance(d, ast.Name) and d.id == "overload" for d in node.decorator_list):
                return
            self._index_func(m, node, node.name, None)
        elif isinstance(node, ast.ClassDef):
            self._index_class(m, node)
        elif isinstance(node, ast.Assign):
            for t in node.targets:
                if isinstance(t, ast.Name):
                    m.assigns[t.id] = node.value
        elif isinstance(node, ast.AnnAssign) and isinstance(node.target, ast.Name) and node.value:
            m.assigns[node.target.id] = node.value
        elif isinstance(node, ast.If):
            # e.g. `if TYPE_CHECKING:` blocks: index imports inside for name resolution
            for s in node.body:
                if isinstance(s, (ast.Import, ast.ImportFrom)):
                    self._index_stmt(m, s)

    def _index_func(self, m, node, qualname, cls):
        fi = FuncInfo(
            module=m,
            qualname=qualname,
            node=node,
            cls=cls,
            is_async=isinstance(node, ast.AsyncFunctionDef),
            decorators=list(node.decorator_list),
        )
        m.functions[qualname] = fi
        # nested defs
        for sub in ast.walk(node):
            if sub is node:
                continue
        self._index_nested(m, node, qualname)
        return fi

    def _index_nested(self, m, node, qualname):
        for st in self._iter_body_stmts(node):
            if isinstance(st, (ast.FunctionDef, ast.AsyncFunctionDef)):
                qn = f"{qualname}.<locals>.{st.name}"
                fi = FuncInfo(module=m, qualname=qn, node=st, cls=None,
                              is_async=isinstance(st, ast.AsyncFunctionDef),
                              decorators=list(st.decorator_list))
                m.functions[qn] = fi
                self._index_nested(m, st, qn)

    def _iter_body_stmts(self, node):
        """All statements lexically inside node's body but not inside nested defs."""
        stack = list(getattr(node, "body", []))
        while stack:
            st = stack.pop(0)
            yield st
            if isinstance(st, (ast.FunctionDef, ast.AsyncFunctionDef, ast.ClassDef)):
                continue
            for fld in ("body", "orelse", "finalbody"):
                stack.extend(getattr(st, fld, []) or [])
            for h in getattr(st, "handlers", []) or []:
                stack.extend(h.body)
            for c in getattr(st, "cases", []) or []:  # match statement
                stack.extend(c.body)

    def _index_class(self, m, node: ast.ClassDef):
        ci = ClassInfo(module=m, name=node.name, node=node, bases=list(node.bases))
        for d in node.decorator_list:
            dn = d.func if isinstance(d, ast.Call) else d
            if isinstance(dn, ast.Name) and dn.id == "dataclass":
                ci.is_dataclass = True
                if isinstance(d, ast.Call):
                    for kw in d.keywords:
                        if kw.arg == "frozen" and isinstance(kw.value, ast.Constant):
                            ci.frozen = bool(kw.value.value)
        for b in node.bases:
            if isinstance(b, ast.Name) and b.id == "Enum":
                ci.is_enum = True
        for st in node.body:
            if isinstance(st, (ast.FunctionDef, ast.AsyncFunctionDef)):
                qn = f"{node.name}.{st.name}"
                fi = self._index_func(m, st, qn, ci)
                ci.methods[st.name] = fi
            elif isinstance(st, ast.AnnAssign) and isinstance(st.target, ast.Name):
                if ci.is_dataclass:
                    ci.fields.append((st.target.id, st.value, st.annotation))
                else:
                    ci.class_attrs[st.target.id] = st.value
            elif isinstance(st, ast.Assign):
                for t in st.targets:
                    if isinstance(t, ast.Name):
                        if ci.is_enum:
                            ci.enum_members.append((t.id, st.value))
                        else:
                            ci.class_attrs[t.id] = st.value
        m.classes[node.name] = ci

    # ------------------------------------------------------------------
    def module(self, name: str) -> ModuleInfo:
        return self.modules[name]

    def func(self, key: str) -> FuncInfo:
        mod, qn = key.split(":")
        return self.modules[mod].functions[qn]

    def cls(self, key: str) -> ClassInfo:
        mod, qn = key.split(":")
        return self.modules[mod].classes[qn]

    def resolve_name(self, m: ModuleInfo, name: str, _depth=0):
        """Resolve a module-global name to ('func', FuncInfo) | ('class', ClassInfo) |
        ('module', name) | ('extattr', modname, attr) | ('assign', ModuleInfo, ast) | None."""
        if _depth > 10:
            return None
        if name in m.functions and "." not in name:
            return ("func", m.functions[name])
        if name in m.classes:
            return ("class", m.classes[name])
        if name in m.assigns:
            return ("assign", m, m.assigns[name])
        if name in m.imports:
            imp = m.imports[name]
            if imp[0] == "module":
                return ("module", imp[1])
            _, mod, attr = imp
            if mod in self.modules:
                r = self.resolve_name(self.modules[mod], attr, _depth + 1)
                if r is not None:
                    return r
                sub = f"{mod}.{attr}"
                if sub in self.modules:
                    return ("module", sub)
                return None
            sub = f"{mod}.{attr}"
            if sub in self.modules:
                return ("module", sub)
            return ("extattr", mod, attr)
        return None

    def class_bases(self, ci: ClassInfo):
        """Resolved base classes: list of ClassInfo | ('ext', dotted-name)."""
        out = []
        for b in ci.bases:
            if isinstance(b, ast.Subscript):
                b = b.value
            if isinstance(b, ast.Name):
                r = self.resolve_name(ci.module, b.id)
                if r and r[0] == "class":
                    out.append(r[1])
                elif r and r[0] == "extattr":
                    out.append(("ext", f"{r[1]}.{r[2]}"))
                else:
                    out.append(("ext", b.id))
            elif isinstance(b, ast.Attribute):
                out.append(("ext", ast.unparse(b)))
        return out

    def mro(self, ci: ClassInfo):
        out = [ci]
        for b in self.class_bases(ci):
            if isinstance(b, ClassInfo):
                for x in self.mro(b):
                    if x not in out:
                        out.append(x)
        return out

    def ext_bases(self, ci: ClassInfo):
        out = []
        for c in self.mro(ci):
            for b in self.class_bases(c):
                if not isinstance(b, ClassInfo):
                    out.append(b[1])
        return out

    def find_method(self, ci: ClassInfo, name: str):
        for c in self.mro(ci):
            if name in c.methods:
                return c.methods[name]
        return None

    def dataclass_fields(self, ci: ClassInfo):
        fields = []
        for c in reversed(self.mro(ci)):
            if c.is_dataclass:
                for f in c.fields:
                    fields = [x for x in fields if x[0] != f[0]] + [f]
        return fields

    def loops_of(self, fi: FuncInfo):
        """Loops lexically in the function (not nested defs), in source order."""
        loops = []
        for st in self._iter_body_stmts(fi.node):
            if isinstance(st, (ast.For, ast.While, ast.AsyncFor)):
                loops.append(st)
        # a generator expression consumed by next(...) is a search loop (`for x in it: if c: r = e; break`): it is numbered with
        # the loops, in source order, so that it finds the invariant a scan loop at the same place would have found
        stack = list(getattr(fi.node, "body", []))
        while stack:
            n = stack.pop()
            if isinstance(n, (ast.FunctionDef, ast.AsyncFunctionDef, ast.ClassDef, ast.Lambda)):
                continue
            if (isinstance(n, ast.Call) and isinstance(n.func, ast.Name) and n.func.id == "next" and n.args
                    and isinstance(n.args[0], ast.GeneratorExp)):
                loops.append(n.args[0])
            stack.extend(ast.iter_child_nodes(n))
        loops.sort(key=lambda n: (n.lineno, n.col_offset))
        return loops
