"""The `Any` sort: an arbitrary built-in value (C19 / C20).

AnyV(tag, i, f(k,v), s, b, truthy): tagged union over
   None | Bool b | Int i | Float f | Str s | Bytes | Container (tuple/list/dict/set, truthiness symbolic) | Object
Semantics follow CPython for these tags: isinstance(x, int) <=> tag in {Bool, Int}; bool is an int (True == 1);
==, ordering and truthiness per type; NaN is truthy and unequal to everything.
Object: an instance of an arbitrary class *without* numeric/str behaviour; its truthiness is an arbitrary bool
(assumption A5 extended: __bool__/__len__/__eq__/__str__ of such objects do not raise).
"""
from __future__ import annotations

import z3

from . import ops
from .excs import _enum_sort_cached
from .ops import wrap_bool
from .path import Unsupported
from .values import FIN, NAN, AnyV, SFloat, Sym, fresh_name

INT_MAX_STR_DIGITS = 4300  # CPython default of sys.get_int_max_str_digits()
TAGS = ["None", "Bool", "Int", "Float", "Str", "Bytes", "Container", "Object"]


class AnyMixin:
    def _any_init(self):
        self.any_sort, consts = _enum_sort_cached("AnyTag", [f"T_{t}" for t in TAGS])
        self.any_tags = dict(zip(TAGS, consts))

    def fresh_any(self, name="any"):
        if not self.any_tags:
            self._any_init()
        v = AnyV(z3.Const(fresh_name(name + "_tag"), self.any_sort), z3.Int(fresh_name(name + "_i")),
                 z3.Int(fresh_name(name + "_fk")), z3.Real(fresh_name(name + "_fv")),
                 z3.String(fresh_name(name + "_s")), z3.Bool(fresh_name(name + "_b")),
                 z3.Bool(fresh_name(name + "_truthy")), name)
        self.path.assume(z3.And(v.fk >= 0, v.fk <= 3))
        return v

    def any_from_terms(self, tag, i, fk, fv, s, b, truthy, name="elem"):
        return AnyV(tag, i, fk, fv, s, b, truthy, name)

    def any_is(self, v: AnyV, *tags):
        return z3.Or([v.tag == self.any_tags[t] for t in tags])

    def any_numeric_real(self, v: AnyV):
        """real value when the tag is Bool/Int/Float-finite"""
        return z3.If(v.tag == self.any_tags["Bool"], z3.If(v.b, z3.RealVal(1), z3.RealVal(0)),
                     z3.If(v.tag == self.any_tags["Int"], z3.ToReal(v.i), v.fv))

    def any_int_value(self, v: AnyV):
        return z3.If(v.tag == self.any_tags["Bool"], z3.If(v.b, z3.IntVal(1), z3.IntVal(0)), v.i)

    def any_truth(self, v: AnyV):
        T = self.any_tags
        return z3.Or(
            z3.And(v.tag == T["Bool"], v.b),
            z3.And(v.tag == T["Int"], v.i != 0),
            z3.And(v.tag == T["Float"], z3.Not(z3.And(v.fk == FIN, v.fv == 0))),
            z3.And(v.tag == T["Str"], z3.Length(v.s) > 0),
            z3.And(self.any_is(v, "Bytes", "Container", "Object"), v.truthy),
        )

    def any_isinstance(self, v: AnyV, target):
        from .values import ExtV
        if isinstance(target, ExtV):
            nm = target.name
            if nm == "int":
                return z3.simplify(self.any_is(v, "Bool", "Int"))
            if nm == "float":
                return z3.simplify(self.any_is(v, "Float"))
            if nm == "str":
                return z3.simplify(self.any_is(v, "Str"))
            if nm == "bool":
                return z3.simplify(self.any_is(v, "Bool"))
            if nm == "bytes":
                return z3.simplify(self.any_is(v, "Bytes"))
            if nm in ("collections.abc.Mapping", "Mapping"):
                h = self.ext_models.get("any_is_mapping")
                if h is not None:
                    return h(self, v)
                return False
        raise Unsupported(f"isinstance(AnyV, {target!r})")

    def any_num_kind(self, x):
        """(is_numeric: Bool, real value, nan: Bool, pinf, ninf) for AnyV or a plain number"""
        if isinstance(x, AnyV):
            T = self.any_tags
            isnum = self.any_is(x, "Bool", "Int", "Float")
            isf = x.tag == T["Float"]
            return (isnum, self.any_numeric_real(x), z3.And(isf, x.fk == NAN), z3.And(isf, x.fk == 1), z3.And(isf, x.fk == 2))
        sf = ops.to_sfloat(x)
        return (z3.BoolVal(True), sf.v, sf.k == NAN, sf.k == 1, sf.k == 2)

    def any_eq(self, a, b):
        if isinstance(a, AnyV) and isinstance(b, AnyV):
            raise Unsupported("AnyV == AnyV")
        v, o = (a, b) if isinstance(a, AnyV) else (b, a)
        T = self.any_tags
        if o is None:
            return wrap_bool(v.tag == T["None"])
        if isinstance(o, str) or (isinstance(o, Sym) and o.ty == "str"):
            return wrap_bool(z3.And(v.tag == T["Str"], v.s == ops.sterm(o)))
        if ops.kind(o) is not None:
            isnum, val, nan, pinf, ninf = self.any_num_kind(v)
            so = ops.to_sfloat(o)
            fin_o = so.k == FIN
            return wrap_bool(z3.And(isnum, z3.Not(nan), z3.Not(pinf), z3.Not(ninf), fin_o, val == so.v))
        return False

    def any_order(self, sym, a, b):
        """ordering between AnyV and a number; TypeError for non-numeric operands is raised by the caller's
        isinstance guard in all code in scope - here a non-numeric operand is outside the subset."""
        v, o, flip = (a, b, False) if isinstance(a, AnyV) else (b, a, True)
        if isinstance(o, AnyV):
            raise Unsupported("AnyV < AnyV")
        isnum, val, nan, pinf, ninf = self.any_num_kind(v)
        if not self.path.branch(isnum):
            self.raise_builtin("TypeError")
        x = SFloat(z3.If(nan, z3.IntVal(NAN), z3.If(pinf, z3.IntVal(1), z3.If(ninf, z3.IntVal(2), z3.IntVal(FIN)))), val)
        y = ops.to_sfloat(o)
        if flip:
            x, y = y, x
        return wrap_bool(ops.xf_cmp(sym, x, y))

    def any_callable(self, v: AnyV):
        # only Object values may be callable; arbitrary
        if not hasattr(v, "callable_flag"):
            v.callable_flag = z3.Bool(fresh_name("callable"))
        return wrap_bool(z3.And(v.tag == self.any_tags["Object"], v.callable_flag))

    def any_to_float(self, v: AnyV, node):
        """float(x) for x already known to be int|float (guarded by isinstance in the code in scope)"""
        T = self.any_tags
        if self.path.branch(v.tag == T["Float"]):
            return SFloat(v.fk, v.fv)
        if self.path.branch(self.any_is(v, "Bool", "Int")):
            iv = self.any_int_value(v)
            h = self.ext_models.get("float(int)")
            if h is not None:
                return h(self, Sym(iv, "int"), node)
            return ops.wrap_real(z3.ToReal(iv))
        raise Unsupported("float() of a non-number AnyV")

    def any_getattr(self, v: AnyV, attr, default, node):
        h = self.ext_models.get("any_getattr")
        if h is not None:
            return h(self, v, attr, default, node)
        raise Unsupported(f"getattr(AnyV, {attr})")

    def any_to_str(self, v: AnyV):
        """str(x): the string itself for Str, some string otherwise.  CPython (>= 3.11) refuses to convert an int of more than
        sys.get_int_max_str_digits() (default 4300) decimal digits: ValueError - for the int itself and for a container holding one.
        str() of Bool/Float/Bytes/None and of a plain object does not raise (A5)."""
        T = self.any_tags
        if not hasattr(v, "str_repr"):
            v.str_repr = z3.String(fresh_name("str_of"))
            v.str_raises = z3.Bool(fresh_name("container_holds_unprintable_int"))
        lim = z3.IntVal("1" + "0" * INT_MAX_STR_DIGITS)  # 10**4300 as a numeral string (str() of the Python int would itself raise)
        unprintable = z3.Or(z3.And(v.tag == T["Int"], z3.Or(v.i >= lim, v.i <= -lim)), z3.And(v.tag == T["Container"], v.str_raises))
        if self.path.branch(unprintable):
            self.raise_builtin("ValueError")
        return Sym(z3.If(v.tag == T["Str"], v.s, v.str_repr), "str")
