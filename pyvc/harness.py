"""Helpers shared by the sidecar contracts: fresh symbolic inputs, task registry."""
from __future__ import annotations

import z3

from .interp import Interp, LoopSpec
from .interp_expr import PyRaise
from .path import Unsupported
from .values import (DequeV, EnumMap, EnumSet, EnumVal, EnvFn, FuncV, LockV, Obj, Ref, SFloat, SOpt, Sym,
                     fresh_name, FIN)


def fint(name):
    return Sym(z3.Int(fresh_name(name)), "int")


def freal(name):
    return Sym(z3.Real(fresh_name(name)), "real")


def fbool(name):
    return Sym(z3.Bool(fresh_name(name)), "bool")


def fstr(name):
    return Sym(z3.String(fresh_name(name)), "str")


def fxfloat(name):
    """any float incl. nan/+-inf"""
    k = z3.Int(fresh_name(name + "_k"))
    return SFloat(k, z3.Real(fresh_name(name + "_v")))


def xfloat_wf(x: SFloat):
    return z3.And(x.k >= 0, x.k <= 3, z3.Implies(x.k == FIN, z3.And(x.v <= ops_DBL_MAX(), x.v >= -ops_DBL_MAX())))


def ops_DBL_MAX():
    from .ops import DBL_MAX_R
    return DBL_MAX_R


def fopt(name, val):
    return SOpt(z3.Bool(fresh_name(name + "_none")), val)


def fdeque(name):
    return DequeV(z3.Array(fresh_name(name + "_arr"), z3.IntSort(), z3.RealSort()),
                  z3.Int(fresh_name(name + "_lo")), z3.Int(fresh_name(name + "_hi")))


def fref(name):
    return Ref(z3.Int(fresh_name(name)))


class Task:
    def __init__(self, name, setup, props, functions=(), note=""):
        self.name = name
        self.setup = setup  # setup(interp) -> harness(interp)
        self.props = list(props)
        self.functions = list(functions)  # keys of functions under contract exercised by this task
        self.note = note


def call_catch(interp, fv, args=(), kwargs=None):
    """Call and return ('ok', value) or ('exc', exc_obj)."""
    try:
        return ("ok", interp.call_value(fv, list(args), dict(kwargs or {})))
    except PyRaise as e:
        return ("exc", e.exc)


def T(b):
    if isinstance(b, bool):
        return z3.BoolVal(b)
    if isinstance(b, Sym):
        return b.t
    return b


def param(env, index):
    """value of the index-th declared parameter of the current function (0 = first, incl. self)"""
    a = env.func.node.args
    names = [p.arg for p in a.posonlyargs + a.args + a.kwonlyargs]
    return env.lookup(names[index])


def adopt_unknown_fields(it, obj, ci, init_kwargs, declared):
    """Fields the real __init__ creates that the sidecar's symbolic object does not know about (code added since the contract was
    written): run the real __init__ once with concrete arguments and copy them over - havoced when the class mutates them outside
    __init__ (an arbitrary reachable state), kept at their initial value otherwise."""
    import ast as _ast
    from .values import ClassV
    saved = (it.path.pc[:], dict(it.path.known))
    try:
        fresh = it.call_value(ClassV(ci), [], dict(init_kwargs))
    except Exception:
        return []
    mutated = set()
    for name, fi in ci.methods.items():
        if name == "__init__":
            continue
        for n in _ast.walk(fi.node):
            if isinstance(n, _ast.Attribute) and isinstance(n.ctx, _ast.Store) and isinstance(n.value, _ast.Name) and n.value.id == "self":
                mutated.add(n.attr)
    gone = sorted(f for f in obj.fields if f not in fresh.fields and f.startswith("_") and not f.startswith("__"))
    if gone:
        # the sidecar's symbolic object carries a private field the real class no longer creates: its representation changed and
        # the contracts written over that field say nothing about this code any more - undecided, not a violation
        raise Unsupported(f"{ci.name} no longer has the field(s) {gone} the sidecar contracts are written over (representation changed)")
    added = []
    for f, v in fresh.fields.items():
        if f in obj.fields or f in declared:
            continue
        if f in mutated:
            try:
                v = it.havoc_value(v, f)
            except Exception:
                pass
        obj.fields[f] = v
        added.append(f)
    return added
