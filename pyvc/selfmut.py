"""Self-mutation guard (DESIGN 2.6 item 5): apply semantic mutations to a scratch copy of src/redress
(outside /repo and /verif, removed afterwards) and require each to fail a named obligation; apply
semantics-preserving edits and require the check to stay green.

usage: python3-vt -m pyvc.selfmut <PROP> [--only regex] [--jobs N]
Mutations live in /verif/mutations/<PROP>.json: [{"id","file","old","new","expect":"caught"|"green","note"}]
"""
from __future__ import annotations

import argparse
import json
import os
import re
import shutil
import subprocess
import sys
import tempfile
from concurrent.futures import ThreadPoolExecutor
from pathlib import Path

ROOT = Path(__file__).resolve().parent.parent


def run_one(prop, mut, src_root):
    d = Path(tempfile.mkdtemp(prefix="redress-mut-"))
    try:
        shutil.copytree(src_root, d / "src")
        p = d / "src" / "redress" / mut["file"]
        s = p.read_text()
        if s.count(mut["old"]) < 1:
            return {"id": mut["id"], "result": "pattern-not-found"}
        s = s.replace(mut["old"], mut["new"], mut.get("count", 1))
        if mut.get("append"):
            s += mut["append"]
        p.write_text(s)
        env = dict(os.environ)
        env["REDRESS_SRC"] = str(d / "src")
        env["VERIF_EVIDENCE_DIR"] = str(d / "evidence")
        env["VERIF_JOBS"] = str(mut.get("jobs", 4))
        env["VERIF_NO_SELFMUT"] = "1"
        cmd = [str(ROOT / "check"), prop, "--tier", "quick"] + (["--only", mut["only"]] if mut.get("only") else [])
        r = subprocess.run(cmd, capture_output=True, text=True, env=env,
                           timeout=3600)
        failed = re.findall(r"failed obligation: (.*)", r.stdout)
        return {"id": mut["id"], "exit": r.returncode, "failed": failed[:6],
                "tail": r.stdout.strip().splitlines()[-6:]}
    finally:
        shutil.rmtree(d, ignore_errors=True)


def main(argv=None):
    ap = argparse.ArgumentParser()
    ap.add_argument("prop")
    ap.add_argument("--only")
    ap.add_argument("--jobs", type=int, default=4)
    ap.add_argument("--src", default=os.environ.get("REDRESS_SRC", "/repo/src"))
    a = ap.parse_args(argv)
    muts = json.loads((ROOT / "mutations" / f"{a.prop}.json").read_text())
    if a.only:
        muts = [m for m in muts if re.search(a.only, m["id"])]
    with ThreadPoolExecutor(a.jobs) as ex:
        results = list(ex.map(lambda m: run_one(a.prop, m, a.src), muts))
    ok = True
    summary = []
    for m, r in zip(muts, results):
        exp = m.get("expect", "caught")
        if exp == "caught":
            good = r.get("exit") == 1
        else:
            good = r.get("exit") == 0
        ok &= good
        summary.append({"id": m["id"], "expect": exp, "ok": good, **r})
        print(("ok   " if good else "MISS ") + f"{m['id']:40s} expect={exp} exit={r.get('exit')} {r.get('failed', r.get('result'))}")
        if not good:
            for line in r.get("tail", []):
                print("      | " + line)
    out = {"prop": a.prop, "mutants": len(muts), "as_expected": sum(1 for s in summary if s["ok"]), "results": summary}
    print(json.dumps({k: out[k] for k in ("prop", "mutants", "as_expected")}))
    return 0 if ok else 1


if __name__ == "__main__":
    sys.exit(main())
