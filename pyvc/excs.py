"""Exception class lattice used by the executor (assumption A2: single inheritance among
the named classes; a user subclass behaves like its nearest named ancestor under isinstance)."""
from __future__ import annotations

import asyncio
import builtins
import z3

# leaf name -> python class used for issubclass() against builtins; '*' leaves mean
# "some other subclass of X that is under none of the other named classes".
_BUILTIN_LEAVES = {
    "BaseException*": BaseException,
    "GeneratorExit": GeneratorExit,
    "KeyboardInterrupt": KeyboardInterrupt,
    "SystemExit": SystemExit,
    "CancelledError": asyncio.CancelledError,
    "Exception*": Exception,
    "TimeoutError": TimeoutError,
    "OSError*": OSError,
    "ValueError": ValueError,
    "TypeError": TypeError,
    "OverflowError": OverflowError,
    "ZeroDivisionError": ZeroDivisionError,
    "IndexError": IndexError,
    "KeyError": KeyError,
    "RuntimeError": RuntimeError,
    "AttributeError": AttributeError,
    "AssertionError": AssertionError,
    "ImportError": ImportError,
}

# names by which stdlib exception classes are referenced from repo code
EXT_CLASS_NAMES = {
    "BaseException": BaseException,
    "Exception": Exception,
    "GeneratorExit": GeneratorExit,
    "KeyboardInterrupt": KeyboardInterrupt,
    "SystemExit": SystemExit,
    "asyncio.CancelledError": asyncio.CancelledError,
    "asyncio.exceptions.CancelledError": asyncio.CancelledError,
    "TimeoutError": TimeoutError,
    "concurrent.futures.TimeoutError": TimeoutError,
    "asyncio.TimeoutError": TimeoutError,
    "OSError": OSError,
    "ValueError": ValueError,
    "TypeError": TypeError,
    "OverflowError": OverflowError,
    "ArithmeticError": ArithmeticError,
    "ZeroDivisionError": ZeroDivisionError,
    "LookupError": LookupError,
    "IndexError": IndexError,
    "KeyError": KeyError,
    "RuntimeError": RuntimeError,
    "AttributeError": AttributeError,
    "AssertionError": AssertionError,
    "ImportError": ImportError,
}


_SORT_CACHE = {}


def _enum_sort_cached(name, members):
    key = (name, tuple(members))
    if key not in _SORT_CACHE:
        n = name if not any(k[0] == name for k in _SORT_CACHE) else f"{name}_{len(_SORT_CACHE)}"
        _SORT_CACHE[key] = z3.EnumSort(n, list(members))
    return _SORT_CACHE[key]


class ExcLattice:
    def __init__(self, tree):
        self.tree = tree
        self.repo_exc = {}  # class name -> (ClassInfo, python builtin ancestor)
        for m in tree.modules.values():
            for ci in m.classes.values():
                anc = self._builtin_ancestor(ci)
                if anc is not None:
                    self.repo_exc[ci.name] = (ci, anc)
        self.leaves = list(_BUILTIN_LEAVES) + sorted(self.repo_exc)
        self.sort, consts = _enum_sort_cached("ExcLeaf", [self._z3name(n) for n in self.leaves])
        self.const = dict(zip(self.leaves, consts))

    @staticmethod
    def _z3name(n):
        return "L_" + n.replace("*", "_other")

    def _builtin_ancestor(self, ci):
        for b in self.tree.ext_bases(ci):
            nm = b.split(".")[-1]
            if b in EXT_CLASS_NAMES:
                return EXT_CLASS_NAMES[b]
            if hasattr(builtins, nm) and isinstance(getattr(builtins, nm), type) and issubclass(
                getattr(builtins, nm), BaseException
            ):
                return getattr(builtins, nm)
        return None

    def is_exc_class(self, ci) -> bool:
        return ci.name in self.repo_exc

    def leaves_under(self, target):
        """target: ClassInfo (repo exception) | python builtin exception class."""
        out = []
        for leaf in self.leaves:
            if self._leaf_under(leaf, target):
                out.append(leaf)
        return out

    def _leaf_under(self, leaf, target) -> bool:
        if leaf in self.repo_exc:
            ci, anc = self.repo_exc[leaf]
            if isinstance(target, type):
                return issubclass(anc, target)
            return target in self.tree.mro(ci)
        pyc = _BUILTIN_LEAVES[leaf]
        if isinstance(target, type):
            return issubclass(pyc, target)
        return False

    def isinstance_cond(self, cls_t, target):
        leaves = self.leaves_under(target)
        if not leaves:
            return z3.BoolVal(False)
        if len(leaves) == len(self.leaves):
            return z3.BoolVal(True)
        return z3.Or([cls_t == self.const[l] for l in leaves])

    def leaf_for_class(self, target):
        """Leaf term for an instance constructed as target(...) in repo code."""
        if isinstance(target, type):
            for leaf, pyc in _BUILTIN_LEAVES.items():
                if pyc is target and not leaf.endswith("*"):
                    return self.const[leaf]
            if target is Exception:
                return self.const["Exception*"]
            if target is BaseException:
                return self.const["BaseException*"]
            if target is OSError:
                return self.const["OSError*"]
            raise KeyError(target)
        return self.const[target.name]
