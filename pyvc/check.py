"""Check driver: runs the tasks of one property, applies the vacuity guards, matches known findings,
writes evidence/<ID>.json and sets the exit code.

exit 0  every obligation discharged (or every failed obligation is a listed known finding whose
        native witness still reproduces -> KNOWN-FINDING lines)
exit 1  some obligation failed that known_findings.json does not list -> VIOLATION line
exit 2  undecided (solver unknown / construct outside the subset) - never reported as a violation
exit 3  engine error, zero obligations, vacuity guard tripped
"""
from __future__ import annotations

import argparse
import importlib
import json
import multiprocessing as mp
import os
import re
import subprocess
import sys
import time
import traceback
from pathlib import Path

ROOT = Path(__file__).resolve().parent.parent
sys.path.insert(0, str(ROOT))

from pyvc import stdlib  # noqa: E402
from pyvc.source import SRC_ROOT  # noqa: E402

CONTRACT_MODULES = [
    "contracts.budget",
    "contracts.circuit",
    "contracts.locks",
    "contracts.strategies",
    "contracts.classifiers",
    "contracts.retry_after",
    "contracts.state",
    "contracts.sleepaction",
    "contracts.runners",
    "contracts.policy",
    "contracts.forwarding",
    "contracts.xcheck",
]


def load_tasks():
    tasks = []
    for mn in CONTRACT_MODULES:
        try:
            m = importlib.import_module(mn)
        except ModuleNotFoundError as e:
            if e.name == mn:
                continue
            raise
        for t in getattr(m, "TASKS", []):
            t.module = mn
            tasks.append(t)
    return tasks


def _frontier(args):
    mod, name, depth = args
    from pyvc.interp import Interp
    try:
        m = importlib.import_module(mod)
        task = [t for t in m.TASKS if t.name == name][0]
        it = Interp()
        h = task.setup(it)
        if isinstance(h, tuple) and h[0] == "pair":
            h = h[1]
        return it.frontier(h, depth)
    except Exception:
        # the task itself will crash the same way and be reported as a checker crash (exit 3), never as a violation
        return [None]


def _run_task(args):
    mod, name, tier, seed = args[:4]
    prefixes = args[4] if len(args) > 4 else None
    from pyvc.interp import Interp
    t0 = time.time()
    try:
        m = importlib.import_module(mod)
        task = [t for t in m.TASKS if t.name == name][0]
        if getattr(task, "native", None) is not None:
            return task.native(tier, seed)
        it = Interp()
        it.tier = tier
        it.seed = seed
        h = task.setup(it)
        if isinstance(h, tuple) and h[0] == "product":
            res = it.run_product(h[1], h[2], h[3], name)
        elif isinstance(h, tuple) and h[0] == "pair":
            res = it.run_pair(h[1], h[2], h[3], name, time_limit=getattr(task, "time_limit", 1500), prefixes=prefixes)
        else:
            res = it.run(h, name, time_limit=getattr(task, "time_limit", 1500), prefixes=prefixes)
        funcs = {}
        for k in set(task.functions) | {f for f in res.functions_entered}:
            try:
                funcs[k] = it.tree.func(k).sha()
            except Exception:
                pass
        return {
            "task": name,
            "module": mod,
            "paths": res.paths,
            "ends": res.ends,
            "obligations": [o.to_json() for o in res.obligations],
            "unsupported": res.unsupported[:20],
            "errors": res.errors,
            "covers": sorted(res.covers),
            "wall": time.time() - t0,
            "solver_checks": res.solver_checks,
            "solver_time": res.solver_time,
            "functions": funcs,
            "declared_functions": list(task.functions),
            "contracts_applied": sorted(it.contracts_applied),
            "trusted": dict(stdlib.TRUSTED),
            "expect_covers": list(getattr(task, "expect_covers", [])),
        }
    except Exception:
        return {"task": name, "module": mod, "crash": traceback.format_exc(), "wall": time.time() - t0,
                "obligations": [], "paths": 0, "covers": [], "unsupported": [], "errors": [], "functions": {},
                "declared_functions": [], "trusted": {}, "ends": {}, "solver_checks": 0, "solver_time": 0, "contracts_applied": [],
                "expect_covers": []}


def load_known():
    p = ROOT / "known_findings.json"
    if not p.exists():
        return []
    return json.loads(p.read_text()).get("findings", [])


def replay_native(script, payload, timeout=120):
    """Run a replay script under the interpreter the test-suite uses, against the same tree."""
    env = dict(os.environ)
    env["PYTHONPATH"] = str(SRC_ROOT)
    env["REDRESS_VERIF"] = "1"
    p = subprocess.run(["/venv/bin/python", str(ROOT / "replay" / script)], input=json.dumps(payload),
                       capture_output=True, text=True, env=env, timeout=timeout)
    try:
        out = json.loads(p.stdout.strip().splitlines()[-1])
    except Exception:
        out = {"reproduced": None, "error": (p.stdout + p.stderr)[-2000:]}
    return out


def main(argv=None):
    ap = argparse.ArgumentParser()
    ap.add_argument("prop")
    ap.add_argument("--tier", default=os.environ.get("VERIF_TIER", "quick"))
    ap.add_argument("--jobs", type=int, default=int(os.environ.get("VERIF_JOBS", "16")))
    ap.add_argument("--replay")
    ap.add_argument("--only")
    a = ap.parse_args(argv)
    prop = a.prop
    tier = a.tier if a.tier in ("quick", "thorough") else "quick"
    seed = int(os.environ.get("VERIF_SEED", "0") or 0)
    t0 = time.time()

    if a.replay:
        data = json.loads(Path(a.replay).read_text())
        print(json.dumps(data, indent=1)[:4000])
        if data.get("script"):
            out = replay_native(data["script"], data.get("payload", {}))
            print("native replay:", json.dumps(out)[:2000])
            return 1 if out.get("reproduced") else 0
        return 0

    tasks = [t for t in load_tasks() if prop in t.props or prop == "ANY"]
    if a.only:
        tasks = [t for t in tasks if re.search(a.only, t.name)]
    if tier == "quick":
        tasks = [t for t in tasks if not getattr(t, "thorough_only", False)]
    if not tasks:
        print(f"no tasks for {prop}")
        return 3
    ctx = mp.get_context("fork")
    split = [t for t in tasks if getattr(t, "split_depth", 0)]
    with ctx.Pool(a.jobs) as pool:
        fronts = pool.map(_frontier, [(t.module, t.name, t.split_depth) for t in split], chunksize=1) if split else []
        jobs = []
        for t in tasks:
            if t in split:
                leaves = fronts[split.index(t)]
                nchunks = max(1, min(len(leaves), getattr(t, "split_chunks", 24)))
                for i in range(nchunks):
                    jobs.append((getattr(t, "weight", 1), (t.module, t.name, tier, seed, leaves[i::nchunks])))
            else:
                jobs.append((getattr(t, "weight", 1), (t.module, t.name, tier, seed)))
        jobs.sort(key=lambda j: -j[0])
        parts = pool.map(_run_task, [j[1] for j in jobs], chunksize=1)
    # merge the chunks of split tasks
    merged = {}
    order = []
    for r in parts:
        k = (r["module"], r["task"])
        if k not in merged:
            merged[k] = r
            order.append(k)
            continue
        m = merged[k]
        if r.get("crash"):
            m["crash"] = r["crash"]
        m["paths"] += r["paths"]
        for e, n in r["ends"].items():
            m["ends"][e] = m["ends"].get(e, 0) + n
        m["obligations"].extend(r["obligations"])
        m["unsupported"].extend(r["unsupported"])
        m["errors"].extend(r["errors"])
        m["covers"] = sorted(set(m["covers"]) | set(r["covers"]))
        m["wall"] = max(m["wall"], r["wall"])
        m["solver_checks"] += r["solver_checks"]
        m["solver_time"] += r["solver_time"]
        m["functions"].update(r["functions"])
        m["contracts_applied"] = sorted(set(m.get("contracts_applied", [])) | set(r.get("contracts_applied", [])))
    results = [merged[k] for k in order]

    extra = {}
    if tier == "thorough" and (ROOT / "mutations" / f"{prop}.json").exists() and not os.environ.get("VERIF_NO_SELFMUT") \
            and not os.environ.get("REDRESS_SRC"):
        # self-mutation guard: semantic mutations on a scratch copy must fail a named obligation (reported, not a verdict)
        from pyvc import selfmut
        muts = json.loads((ROOT / "mutations" / f"{prop}.json").read_text())
        from concurrent.futures import ThreadPoolExecutor
        with ThreadPoolExecutor(4) as ex:
            res = list(ex.map(lambda m: selfmut.run_one(prop, m, str(SRC_ROOT)), muts))
        summ = []
        for m, r in zip(muts, res):
            exp = m.get("expect", "caught")
            good = (r.get("exit") == 1) if exp == "caught" else (r.get("exit") == 0)
            summ.append({"id": m["id"], "expect": exp, "as_expected": good, "exit": r.get("exit"), "failed": r.get("failed", [])[:3]})
            if not good:
                print(f"SELF-MUTATION: mutant {m['id']} expected {exp} but check exited {r.get('exit')}")
        extra["self_mutation"] = {"mutants": len(muts), "as_expected": sum(1 for x in summ if x["as_expected"]), "results": summ}
    from pyvc.report import finish
    return finish(prop, tier, seed, tasks, results, time.time() - t0, load_known(), extra)


if __name__ == "__main__":
    sys.exit(main())
