"""The symbolic executor: statements, loops with invariants, the driver that enumerates paths."""
from __future__ import annotations

import ast
import time

import z3

from . import ops
from .excs import EXT_CLASS_NAMES, ExcLattice
from .anyval import AnyMixin
from .interp_call import CallMixin, ReturnSig
from .interp_expr import Env, ExprMixin, PyRaise
from .ops import bterm, rterm, term, wrap_bool, wrap_int, wrap_real
from .path import Path, PathEnd, SolverFront, Unsupported
from .source import SourceTree
from .values import (UNDEF, AnyV, BoundV, ClassV, DequeV, EnumMap, EnumSet, EnumVal, EnvFn, ExtV, FuncV,
                     LambdaV, LockV, MethodRef, ModuleV, Obj, PySet, Ref, SeqV, SFloat, SOpt, Sym, TimeDelta,
                     fresh_name, reset_names)


class BreakSig(Exception):
    pass


class ContinueSig(Exception):
    pass


class Poison:
    def __repr__(self):
        return "<POISON>"


class LoopSpec:
    """Loop contract.  setup(interp, env) -> ctx captures entry values;
    inv(interp, env, idx, ctx) -> list[(name, z3 Bool | bool)];
    havoc(interp, env, ctx) replaces everything the body may modify by fresh symbols (on top of the
    automatic havoc of body-assigned locals); decreases(interp, env, ctx) -> z3 Int term or None."""

    def __init__(self, inv, havoc=None, decreases=None, prop=None, modifies=None, extra_locals=None,
                 setup=None):
        self.setup = setup
        self.modifies = modifies  # modifies(interp, env, ctx) -> [(obj, field | None)]
        self.inv = inv
        self.havoc = havoc
        self.decreases = decreases
        self.prop = prop
        self.extra_locals = extra_locals or {}


class Interp(ExprMixin, CallMixin, AnyMixin):
    POISON = Poison()

    def __init__(self, tree: SourceTree | None = None, timeout_ms=10000):
        self.tree = tree or SourceTree()
        self.lattice = ExcLattice(self.tree)
        self.solver = SolverFront(timeout_ms)
        self.contracts = {}  # func key -> handler(interp, fv, args, kwargs, node)
        self.inline_override = set()
        self.env_models = {}  # EnvFn tag -> handler(interp, fn, args, kwargs, node)
        self.ext_models = {}  # dotted name -> handler(interp, args, kwargs, node)
        self.class_models = {}
        self.attr_models = {}
        self.envfn_attr_models = {}
        self.loop_specs = {}  # (func key, ordinal) -> LoopSpec
        self.mutation_hooks = []
        self.field_hooks = []
        self.stmt_hooks = []
        self.with_hooks = []
        self._enum_sorts = {}
        self._modconst_cache = {}
        self._mutable_fields = None
        self.path: Path | None = None
        self.depth = 0
        self.frames = []
        self.functions_entered = set()
        self.contracts_applied = set()
        self.ext_models["typing.TypeVar"] = lambda it_, a, k, n: Ref(z3.Int(fresh_name("typevar")))
        self.ext_models["typing.ParamSpec"] = lambda it_, a, k, n: Ref(z3.Int(fresh_name("paramspec")))
        self.any_tags = {}
        self._any_init()
        self.lines_executed = set()

    # ------------------------------------------------------------------ statements
    def exec_block(self, stmts, env):
        for st in stmts:
            self.exec_stmt(st, env)

    def exec_stmt(self, node, env):
        m = getattr(self, "s_" + type(node).__name__, None)
        if m is None:
            raise Unsupported(f"statement {type(node).__name__} at line {node.lineno}")
        self.lines_executed.add((env.module.name, node.lineno))
        for h in self.stmt_hooks:
            h(self, node, env)
        return m(node, env)

    def s_Pass(self, node, env):
        pass

    def s_Expr(self, node, env):
        if isinstance(node.value, ast.Constant):
            return
        self.eval(node.value, env)

    def s_Return(self, node, env):
        raise ReturnSig(self.eval(node.value, env) if node.value is not None else None)

    def s_Break(self, node, env):
        raise BreakSig()

    def s_Continue(self, node, env):
        raise ContinueSig()

    def s_Assign(self, node, env):
        v = self.eval(node.value, env)
        for t in node.targets:
            self.assign_target(t, v, env)

    def s_AnnAssign(self, node, env):
        if node.value is None:
            return
        v = self.eval(node.value, env)
        self.assign_target(node.target, v, env)

    def s_AugAssign(self, node, env):
        opn = {ast.Add: "+", ast.Sub: "-", ast.Mult: "*", ast.Div: "/"}.get(type(node.op))
        if opn is None:
            raise Unsupported("augassign op")
        if isinstance(node.target, ast.Name):
            cur = self.lookup_name(env, node.target.id)
            self.assign_target(node.target, self.binop(opn, cur, self.eval(node.value, env), node), env)
        elif isinstance(node.target, ast.Attribute):
            obj = self.eval(node.target.value, env)
            cur = self.getattr_value(obj, node.target.attr, node)
            self.setattr_value(obj, node.target.attr, self.binop(opn, cur, self.eval(node.value, env), node), node)
        elif isinstance(node.target, ast.Subscript):
            obj = self.eval(node.target.value, env)
            idx = self.eval(node.target.slice, env)
            cur = self.getitem(obj, idx, node)
            self.setitem(obj, idx, self.binop(opn, cur, self.eval(node.value, env), node), node)
        else:
            raise Unsupported("augassign target")

    def assign_target(self, t, v, env):
        if isinstance(t, ast.Name):
            env.vars[t.id] = v
        elif isinstance(t, ast.Attribute):
            obj = self.eval(t.value, env)
            self.setattr_value(obj, t.attr, v, t)
        elif isinstance(t, ast.Subscript):
            obj = self.eval(t.value, env)
            idx = self.eval(t.slice, env)
            self.setitem(obj, idx, v, t)
        elif isinstance(t, (ast.Tuple, ast.List)):
            items = self.iterate(v) if not isinstance(v, tuple) else list(v)
            stars = [i for i, e in enumerate(t.elts) if isinstance(e, ast.Starred)]
            if len(stars) == 1 and len(items) >= len(t.elts) - 1:
                i = stars[0]
                tail = len(t.elts) - i - 1
                mid = items[i:len(items) - tail]
                for e, x in zip(t.elts[:i], items[:i]):
                    self.assign_target(e, x, env)
                self.assign_target(t.elts[i].value, list(mid), env)
                for e, x in zip(t.elts[i + 1:], items[len(items) - tail:]):
                    self.assign_target(e, x, env)
                return
            if len(items) != len(t.elts):
                raise Unsupported("unpack length")
            for e, x in zip(t.elts, items):
                self.assign_target(e, x, env)
        else:
            raise Unsupported("assign target")

    def setattr_value(self, obj, attr, v, node=None, raw=False):
        obj = self.force(obj)
        if isinstance(obj, Obj):
            if not raw and obj.cls is not None:
                # a class that defines __setattr__ intercepts every attribute assignment (object.__setattr__ is the raw store)
                sa = self.tree.find_method(obj.cls, "__setattr__")
                if sa is not None:
                    self.call_function(FuncV(sa), [obj, attr, v], {}, node)
                    return
            if obj.frozen and not self._in_init_of(obj):
                self.raise_builtin("AttributeError", node)
            for h in self.field_hooks:
                h(self, obj, attr, "write", node)
            obj.fields[attr] = v
            self.note_mutation(obj)
            return
        raise Unsupported(f"setattr on {obj!r}")


    def _in_init_of(self, obj):
        return False

    def setitem(self, obj, idx, v, node=None):
        obj = self.force(obj)
        if isinstance(obj, dict):
            k = self.dict_key(idx)
            if k is not None:
                obj[k] = v
                return
        if isinstance(obj, EnumMap):
            self.enummap_set(obj, idx, v)
            self.note_mutation(obj)
            return
        raise Unsupported(f"setitem on {obj!r}")

    def s_If(self, node, env):
        if self.is_true(self.eval(node.test, env)):
            self.exec_block(node.body, env)
        else:
            self.exec_block(node.orelse, env)

    def s_Assert(self, node, env):
        t = self.truth(self.eval(node.test, env))
        fn = env.func.key if env.func else "?"
        self.path.oblige(f"{fn}/assert@{node.lineno}", z3.BoolVal(t) if isinstance(t, bool) else t,
                         prop="safety")
        self.path.assume(t)

    def s_Import(self, node, env):
        for a in node.names:
            env.vars[a.asname or a.name.split(".")[0]] = ModuleV(a.name, a.name in self.tree.modules)

    def s_ImportFrom(self, node, env):
        mod = self.tree._resolve_rel(env.module, node.level, node.module)
        for a in node.names:
            if mod in self.tree.modules:
                r = self.tree.resolve_name(self.tree.modules[mod], a.name)
                if r is None:
                    raise Unsupported(f"import {a.name} from {mod}")
                env.vars[a.asname or a.name] = self.value_of_resolution(r)
            else:
                env.vars[a.asname or a.name] = ExtV(f"{mod}.{a.name}")

    def s_FunctionDef(self, node, env):
        qn = f"{env.func.qualname}.<locals>.{node.name}"
        info = env.module.functions.get(qn)
        if info is None:
            raise Unsupported(f"nested def {qn} not indexed")
        fv = FuncV(info, closure=env)
        # decorators: functools.wraps(func) is identity for our purposes
        for d in node.decorator_list:
            dn = ast.unparse(d)
            if not dn.startswith("functools.wraps"):
                raise Unsupported(f"decorator {dn}")
        env.vars[node.name] = fv

    s_AsyncFunctionDef = s_FunctionDef

    def s_Raise(self, node, env):
        if node.exc is None:
            if not env.handling:
                # bare raise inside a helper called from a handler is not used in scope
                self.raise_builtin("RuntimeError", node)
            raise PyRaise(env.handling[-1], node=node)
        v = self.eval(node.exc, env)
        if isinstance(v, (ClassV, ExtV)):
            v = self.call_value(v, [], {}, node, env)
        v = self.force(v)
        if not (isinstance(v, Obj) and v.cls_t is not None):
            raise Unsupported(f"raise of {v!r}")
        cause = UNDEF
        if node.cause is not None:
            cause = self.eval(node.cause, env)
            v.fields["__cause__"] = cause
        raise PyRaise(v, cause=cause, node=node)

    def s_Try(self, node, env):
        try:
            try:
                self.exec_block(node.body, env)
            except PyRaise as pr:
                handled = False
                for h in node.handlers:
                    if h.type is None:
                        cond = True
                    else:
                        target = self.eval(h.type, env)
                        cond = self.isinstance_value(pr.exc, target)
                    if self.path.branch(cond):
                        handled = True
                        if h.name:
                            env.vars[h.name] = pr.exc
                        env.handling.append(pr.exc)
                        try:
                            self.exec_block(h.body, env)
                        finally:
                            env.handling.pop()
                        break
                if not handled:
                    raise
            else:
                self.exec_block(node.orelse, env)
        except (PathEnd, Unsupported):
            raise
        except BaseException:
            if node.finalbody:
                self.exec_block(node.finalbody, env)
            raise
        else:
            if node.finalbody:
                self.exec_block(node.finalbody, env)

    def s_Match(self, node, env):
        subject = self.eval(node.subject, env)
        for case in node.cases:
            sub_bind = {}
            if self.match_pattern(case.pattern, subject, env, sub_bind):
                for k, v in sub_bind.items():
                    env.vars[k] = v
                if case.guard is not None and not self.is_true(self.eval(case.guard, env)):
                    continue
                self.exec_block(case.body, env)
                return

    def match_pattern(self, pat, subject, env, bind) -> bool:
        """value / singleton / wildcard / capture / or / fixed-length sequence patterns (class and mapping patterns are outside the subset)"""
        if isinstance(pat, ast.MatchValue):
            return self.is_true(self.compare(ast.Eq(), subject, self.eval(pat.value, env)))
        if isinstance(pat, ast.MatchSingleton):
            return self.is_true(self.compare(ast.Is(), subject, pat.value))
        if isinstance(pat, ast.MatchAs):
            if pat.pattern is not None and not self.match_pattern(pat.pattern, subject, env, bind):
                return False
            if pat.name is not None:
                bind[pat.name] = subject
            return True
        if isinstance(pat, ast.MatchOr):
            return any(self.match_pattern(q, subject, env, bind) for q in pat.patterns)
        if isinstance(pat, ast.MatchSequence):
            subj = self.force(subject)
            if not isinstance(subj, (tuple, list)) or any(isinstance(q, ast.MatchStar) for q in pat.patterns):
                raise Unsupported("match sequence pattern over this subject")
            if len(subj) != len(pat.patterns):
                return False
            return all(self.match_pattern(q, x, env, bind) for q, x in zip(pat.patterns, subj))
        if isinstance(pat, ast.MatchClass) and not pat.patterns and not pat.kwd_patterns:
            r = self.isinstance_value(subject, self.eval(pat.cls, env))
            return r if isinstance(r, bool) else self.path.branch(r)
        raise Unsupported(f"match pattern {type(pat).__name__}")

    def s_With(self, node, env):
        if len(node.items) != 1:
            raise Unsupported("with multiple items")
        cm = self.eval(node.items[0].context_expr, env)
        if isinstance(cm, LockV):
            for h in self.with_hooks:
                h(self, "enter", cm, node, env)
            cm.held = True
            cm.acquisitions += 1
            try:
                self.exec_block(node.body, env)
            finally:
                cm.held = False
                for h in self.with_hooks:
                    h(self, "exit", cm, node, env)
            return
        if isinstance(cm, tuple) and cm and cm[0] == "suppress":
            # contextlib.suppress(E, ...): an exception of one of these classes raised by the body ends the block silently
            try:
                self.exec_block(node.body, env)
            except PyRaise as e:
                cond = self.isinstance_value(e.exc, tuple(cm[1:]) if len(cm) > 2 else cm[1])
                if isinstance(cond, bool):
                    hit = cond
                else:
                    hit = self.path.branch(cond)
                if not hit:
                    raise
            return
        raise Unsupported(f"with {cm!r}")

    # ------------------------------------------------------------------ loops
    def find_loop_spec(self, env, node):
        """(function key, ordinal) -> LoopSpec; a task may also register one default spec for every loop of a module under
        ("<module>:*", "*") - only sensible for specs that do not mention the loop (trivial invariant, empty frame)."""
        spec = self.loop_specs.get((env.func.key, self.loop_ordinal(env, node)))
        if spec is None:
            spec = self.loop_specs.get((env.func.key.split(":", 1)[0] + ":*", "*"))
        return spec

    def loop_ordinal(self, env, node):
        loops = self.tree.loops_of(env.func)
        for i, l in enumerate(loops):
            if l is node:
                return i + 1
        raise Unsupported("loop not found")

    def s_For(self, node, env):
        it = self.eval(node.iter, env)
        spec = None
        if env.func is not None:
            spec = self.find_loop_spec(env, node)
        if isinstance(it, tuple) and it and it[0] == "range":
            rargs = it[1:]
            if len(rargs) == 1:
                lo, hi = 0, rargs[0]
            elif len(rargs) == 2:
                lo, hi = rargs
            else:
                raise Unsupported("range step")
            if isinstance(lo, int) and isinstance(hi, int) and spec is None:
                items = list(range(lo, hi))
            else:
                if spec is None:
                    if self._append_n_loop(node, env, lo, hi):
                        return
                    raise Unsupported(f"loop without invariant at {env.func.key}:{node.lineno}")
                return self.exec_spec_loop(node, env, spec, lo=lo, hi=hi)
        elif isinstance(it, SeqV):
            if spec is None:
                raise Unsupported(f"loop over a symbolic sequence without invariant at {env.func.key}:{node.lineno}")
            return self.exec_spec_loop(node, env, spec, lo=0, hi=Sym(it.length, "int"), seq=it)
        else:
            items = self.iterate(it)
        broke = False
        for item in items:
            self.assign_target(node.target, item, env)
            try:
                self.exec_block(node.body, env)
            except BreakSig:
                broke = True
                break
            except ContinueSig:
                continue
        if not broke:
            self.exec_block(node.orelse, env)

    def _append_n_loop(self, node, env, lo, hi):
        """`for _ in range(n): <deque>.append(<elt>)` with a loop-independent, side-effect-free elt and no else/break: exactly
        deque.extend(<elt> for _ in range(n)) - summarised in closed form wherever the loop lives (no invariant needed)."""
        if node.orelse or len(node.body) != 1 or not isinstance(node.body[0], ast.Expr) or not (isinstance(lo, int) and lo == 0):
            return False
        call = node.body[0].value
        if not (isinstance(call, ast.Call) and isinstance(call.func, ast.Attribute) and call.func.attr == "append" and len(call.args) == 1
                and not call.keywords and isinstance(call.args[0], (ast.Name, ast.Constant))):
            return False
        tgt = {x.id for x in ast.walk(node.target) if isinstance(x, ast.Name)}
        if isinstance(call.args[0], ast.Name) and call.args[0].id in tgt:
            return False
        recv = self.eval(call.func.value, env)
        if not isinstance(recv, DequeV):
            return False
        gen = ast.GeneratorExp(elt=call.args[0], generators=[ast.comprehension(target=node.target, iter=node.iter, ifs=[], is_async=0)])
        ast.copy_location(gen, node)
        ast.fix_missing_locations(gen)
        from .values import GenExp
        self.call_method(recv, "extend", [GenExp(gen, env)], {}, node)
        return True

    def _prune_head_loop(self, node, env):
        """`while <dq> and <dq>[0] <= <cutoff>: <dq>.popleft()` (cutoff a plain name/number): pops exactly the maximal head segment whose
        entries are <= cutoff - summarised in closed form wherever the loop lives: new lo = p with lo <= p <= hi,
        all entries in [lo, p) <= cutoff, and p == hi or entry p > cutoff."""
        t = node.test
        if node.orelse or len(node.body) != 1 or not isinstance(node.body[0], ast.Expr):
            return False
        if not (isinstance(t, ast.BoolOp) and isinstance(t.op, ast.And) and len(t.values) == 2 and isinstance(t.values[0], ast.Name)):
            return False
        dq, cmp_ = t.values
        if not (isinstance(cmp_, ast.Compare) and len(cmp_.ops) == 1 and isinstance(cmp_.ops[0], ast.LtE)
                and isinstance(cmp_.left, ast.Subscript) and isinstance(cmp_.left.value, ast.Name) and cmp_.left.value.id == dq.id
                and isinstance(cmp_.left.slice, ast.Constant) and cmp_.left.slice.value == 0
                and isinstance(cmp_.comparators[0], (ast.Name, ast.Constant))):
            return False
        call = node.body[0].value
        if not (isinstance(call, ast.Call) and isinstance(call.func, ast.Attribute) and call.func.attr == "popleft" and not call.args
                and isinstance(call.func.value, ast.Name) and call.func.value.id == dq.id):
            return False
        recv = self.eval(dq, env)
        if not isinstance(recv, DequeV):
            return False
        if z3.is_int_value(z3.simplify(recv.lo)) and z3.is_int_value(z3.simplify(recv.hi)):
            return False  # a concrete deque (encoder cross-check): the loop is simply executed
        from .ops import rterm
        cutoff = rterm(self.eval(cmp_.comparators[0], env))
        p = z3.Int(fresh_name("prune_p"))
        i = z3.Int("i!prune")
        self.path.assume(z3.And(recv.lo <= p, p <= recv.hi,
                                z3.ForAll([i], z3.Implies(z3.And(recv.lo <= i, i < p), z3.Select(recv.arr, i) <= cutoff)),
                                z3.Implies(p < recv.hi, z3.Select(recv.arr, p) > cutoff)))
        self.path.quantified = True
        recv.lo = p
        self.note_mutation(recv)
        return True

    def s_While(self, node, env):
        spec = self.find_loop_spec(env, node)
        if spec is None and self._prune_head_loop(node, env):
            return
        if spec is None:
            # concrete mode only (encoder cross-check): the test must evaluate to a definite value every time
            for _ in range(100000):
                t = self.truth(self.eval(node.test, env))
                if not isinstance(t, bool):
                    t = z3.simplify(t)
                    if z3.is_true(t):
                        t = True
                    elif z3.is_false(t):
                        t = False
                    else:
                        raise Unsupported(f"while loop without invariant at {env.func.key}:{node.lineno}")
                if not t:
                    self.exec_block(node.orelse, env)
                    return
                try:
                    self.exec_block(node.body, env)
                except BreakSig:
                    return
                except ContinueSig:
                    continue
            raise Unsupported("concrete while loop did not terminate")
        return self.exec_spec_loop(node, env, spec)

    def assigned_locals(self, body):
        names = set()
        for st in body:
            for n in ast.walk(st):
                if isinstance(n, (ast.FunctionDef, ast.AsyncFunctionDef, ast.Lambda)):
                    continue
                if isinstance(n, ast.Name) and isinstance(n.ctx, ast.Store):
                    names.add(n.id)
                if isinstance(n, ast.ExceptHandler) and n.name:
                    names.add(n.name)
        return names

    def mutable_fields(self):
        """attribute names assigned anywhere outside __init__ (by name, conservative)."""
        if self._mutable_fields is None:
            names = set()
            for m in self.tree.modules.values():
                for fi in m.functions.values():
                    in_init = fi.qualname.endswith(".__init__")
                    for n in ast.walk(fi.node):
                        targets = []
                        if isinstance(n, ast.Assign):
                            targets = n.targets
                        elif isinstance(n, (ast.AugAssign, ast.AnnAssign)):
                            targets = [n.target]
                        for t in targets:
                            for sub in ast.walk(t):
                                if isinstance(sub, ast.Attribute) and isinstance(sub.ctx, ast.Store):
                                    if in_init and isinstance(sub.value, ast.Name) and sub.value.id == "self":
                                        continue
                                    names.add(sub.attr)
            self._mutable_fields = names
        return self._mutable_fields

    def havoc_value(self, v, hint="h"):
        """fresh value of the same shape (in place for mutable heap objects)."""
        if isinstance(v, bool):
            return Sym(z3.Bool(fresh_name(hint)), "bool")
        if isinstance(v, int):
            return Sym(z3.Int(fresh_name(hint)), "int")
        if isinstance(v, float):
            return Sym(z3.Real(fresh_name(hint)), "real")
        if isinstance(v, Sym):
            mk = {"int": z3.Int, "real": z3.Real, "bool": z3.Bool, "str": z3.String}[v.ty]
            return Sym(mk(fresh_name(hint)), v.ty)
        if isinstance(v, SFloat):
            return SFloat(z3.Int(fresh_name(hint + "_k")), z3.Real(fresh_name(hint + "_v")))
        if isinstance(v, EnumVal):
            return self.fresh_enum(v.cls, hint)
        if isinstance(v, SOpt):
            return SOpt(z3.Bool(fresh_name(hint + "_none")), self.havoc_value(v.val, hint))
        if isinstance(v, Ref):
            return Ref(z3.Int(fresh_name(hint)))
        if isinstance(v, TimeDelta):
            return TimeDelta(z3.Real(fresh_name(hint)))
        raise Unsupported(f"havoc of {v!r} needs an explicit loop-spec sort")

    def havoc_heap(self, roots, seen=None):
        seen = seen if seen is not None else set()
        mut = self.mutable_fields()
        for v in roots:
            self._havoc_obj(v, seen, mut)

    def _havoc_obj(self, v, seen, mut):
        if id(v) in seen:
            return
        if isinstance(v, SOpt):
            self._havoc_obj(v.val, seen, mut)
            return
        if isinstance(v, DequeV):
            seen.add(id(v))
            v.arr = z3.Array(fresh_name("arr"), z3.IntSort(), z3.RealSort())
            v.lo = z3.Int(fresh_name("lo"))
            v.hi = z3.Int(fresh_name("hi"))
            return
        if isinstance(v, EnumMap):
            seen.add(id(v))
            for n in list(v.slots):
                try:
                    v.slots[n] = self.havoc_value(v.slots[n], "slot")
                except Unsupported:
                    pass
            return
        if isinstance(v, Obj):
            seen.add(id(v))
            for f, fv in list(v.fields.items()):
                if isinstance(fv, (Obj, DequeV, EnumMap, SOpt)) and not (f in mut and not v.frozen):
                    self._havoc_obj(fv, seen, mut)
                    continue
                if v.frozen or f not in mut:
                    continue
                if fv is None or fv is UNDEF:
                    h = self.field_sorts.get((v.cls.name if v.cls else None, f))
                    if h is None:
                        raise Unsupported(f"havoc of None field {v!r}.{f} needs a declared sort")
                    v.fields[f] = h(self, f)
                else:
                    if isinstance(fv, (Obj, DequeV, EnumMap)):
                        self._havoc_obj(fv, seen, mut)
                    else:
                        h = self.field_sorts.get((v.cls.name if v.cls else None, f))
                        v.fields[f] = h(self, f) if h is not None else self.havoc_value(fv, f)

    field_sorts: dict = {}

    def havoc_declared(self, obj, fld):
        if isinstance(obj, DequeV):
            obj.arr = z3.Array(fresh_name("arr"), z3.IntSort(), z3.RealSort())
            obj.lo = z3.Int(fresh_name("lo"))
            obj.hi = z3.Int(fresh_name("hi"))
            return
        if isinstance(obj, EnumMap):
            for n in list(obj.slots):
                if fld is None or fld == n:
                    obj.slots[n] = self.havoc_value(obj.slots[n], "slot")
            return
        if isinstance(obj, Obj):
            flds = [fld] if fld is not None else list(obj.fields)
            for f in flds:
                fv = obj.fields.get(f)
                h = self.field_sorts.get((obj.cls.name if obj.cls else None, f))
                if h is not None:
                    obj.fields[f] = h(self, f)
                elif isinstance(fv, (DequeV, EnumMap)):
                    self.havoc_declared(fv, None)
                elif fv is None or fv is UNDEF:
                    raise Unsupported(f"havoc of None field {obj!r}.{f} needs a declared sort")
                else:
                    obj.fields[f] = self.havoc_value(fv, f)
            return
        raise Unsupported(f"havoc_declared({obj!r})")

    def snapshot_heap(self, env):
        snap = {}
        stack = []
        e = env
        while e is not None:
            stack.extend(e.vars.values())
            e = e.parent
        while stack:
            v = stack.pop()
            if isinstance(v, SOpt):
                stack.append(v.val)
                continue
            if isinstance(v, (tuple, list)):
                stack.extend(v)
                continue
            if id(v) in snap:
                continue
            if isinstance(v, Obj):
                snap[id(v)] = (v, dict(v.fields))
                stack.extend(v.fields.values())
            elif isinstance(v, DequeV):
                snap[id(v)] = (v, (v.arr, v.lo, v.hi))
            elif isinstance(v, EnumMap):
                snap[id(v)] = (v, dict(v.slots))
                stack.extend(v.slots.values())
            elif isinstance(v, EnumSet):
                snap[id(v)] = (v, dict(v.slots))
            elif isinstance(v, dict):
                snap[id(v)] = (v, dict(v))
                stack.extend(v.values())
            elif isinstance(v, LockV):
                snap[id(v)] = (v, (v.held,))
        return snap

    @staticmethod
    def _same(a, b):
        if a is b:
            return True
        if isinstance(a, z3.ExprRef) and isinstance(b, z3.ExprRef):
            return a.eq(b)
        if isinstance(a, Sym) and isinstance(b, Sym):
            return a.ty == b.ty and a.t.eq(b.t)
        if isinstance(a, SOpt) and isinstance(b, SOpt):
            return a.none.eq(b.none) and Interp._same(a.val, b.val)
        if isinstance(a, EnumVal) and isinstance(b, EnumVal):
            return a.t.eq(b.t)
        if isinstance(a, SFloat) and isinstance(b, SFloat):
            return a.k.eq(b.k) and a.v.eq(b.v)
        if isinstance(a, (int, float, str, bool, type(None))) and type(a) is type(b):
            return a == b
        return False

    def frame_violations(self, snap, declared):
        """[(description, ok)] for every heap location changed by the loop body; ok iff it was declared."""
        dec_whole = {id(o) for (o, f) in declared if f is None}
        dec_fld = {(id(o), f) for (o, f) in declared if f is not None}
        out = []
        for oid, (obj, old) in snap.items():
            if isinstance(obj, Obj):
                for f in set(old) | set(obj.fields):
                    if not self._same(old.get(f, UNDEF), obj.fields.get(f, UNDEF)):
                        ok = oid in dec_whole or (oid, f) in dec_fld
                        out.append((f"{obj.cls.name if obj.cls else 'obj'}.{f}", ok))
            elif isinstance(obj, DequeV):
                if not (self._same(old[0], obj.arr) and self._same(old[1], obj.lo) and self._same(old[2], obj.hi)):
                    owner_ok = oid in dec_whole or any(
                        isinstance(o, Obj) and (f is None or o.fields.get(f) is obj) and (id(o) in dec_whole or (id(o), f) in dec_fld)
                        for (o, f) in declared)
                    out.append(("deque", owner_ok))
            elif isinstance(obj, (EnumMap, EnumSet)):
                for f in set(old) | set(obj.slots):
                    if not self._same(old.get(f, UNDEF), obj.slots.get(f, UNDEF)):
                        out.append((f"map[{f}]", oid in dec_whole or (oid, f) in dec_fld))
            elif isinstance(obj, dict):
                if set(old) != set(obj) or any(not self._same(old[k], obj[k]) for k in old):
                    out.append(("dict", oid in dec_whole))
            elif isinstance(obj, LockV):
                if old[0] != obj.held:
                    out.append(("lock", False))
        if not out:
            out.append(("nothing-else-modified", True))
        return out

    def next_over_symbolic(self, g, default, call_node):
        """`next((elt for x in S if c), default)` with S a symbolic sequence is the search loop
        `for x in S: if c: r = elt; break` / `else: r = default` (or `raise StopIteration`): it is executed as that loop, under the
        loop specification registered for its position among the function's loops (source.loops_of numbers it with them).
        Returns (value,) or UNDEF when the iterable is not a symbolic sequence (the caller then iterates concretely)."""
        node, genv = g.node, g.env
        if len(node.generators) != 1 or node.generators[0].is_async or genv.func is None:
            return UNDEF
        comp = node.generators[0]
        src = self.eval(comp.iter, genv)
        g.pre_iter = src
        if not isinstance(src, SeqV):
            return UNDEF
        spec = self.find_loop_spec(genv, node)
        if spec is None:
            raise Unsupported(f"next() over a symbolic sequence without invariant at {genv.func.key}:{node.lineno}")
        k = self.loop_ordinal(genv, node)
        res = ast.Name(id="__next_result", ctx=ast.Store())
        hit = [ast.Assign(targets=[res], value=node.elt, lineno=node.lineno), ast.Break()]
        body = hit if not comp.ifs else [ast.If(test=comp.ifs[0] if len(comp.ifs) == 1 else ast.BoolOp(op=ast.And(), values=list(comp.ifs)),
                                                body=hit, orelse=[])]
        loop = ast.For(target=comp.target, iter=ast.Name(id="__next_iter", ctx=ast.Load()), body=body, orelse=[], type_comment=None)
        ast.copy_location(loop, node)
        ast.fix_missing_locations(loop)
        sub = Env(genv.func, genv.module, parent=genv)
        sub.handling = genv.handling
        sub.vars["__next_iter"] = src
        sub.vars["__next_result"] = UNDEF
        self.exec_spec_loop(loop, sub, spec, lo=0, hi=Sym(src.length, "int"), seq=src, ordinal=k)
        r = sub.vars.get("__next_result", UNDEF)
        if r is UNDEF or r is self.POISON:
            # exit without a hit
            if default is UNDEF:
                self.raise_builtin("StopIteration", call_node)
            return (default,)
        return (r,)

    def exec_spec_loop(self, node, env, spec: LoopSpec, lo=None, hi=None, seq=None, ordinal=None):
        fkey = env.func.key
        k = ordinal if ordinal is not None else self.loop_ordinal(env, node)
        base = f"{fkey}/loop#{k}"
        is_for = isinstance(node, ast.For)
        path = self.path
        prop = spec.prop
        # --- base case
        first = lo if is_for else None
        ctx = spec.setup(self, env) if spec.setup else None
        for (n, f) in spec.inv(self, env, first, ctx):
            path.oblige(f"{base}/inv-init/{n}", f, prop=prop)
        mode = path.choose(2, "loop")  # 0: arbitrary iteration, 1: exit
        # --- havoc: body-assigned locals (syntactic) + the declared heap frame
        for name in sorted(self.assigned_locals(node.body) | (
                {node.target.id} if is_for and isinstance(node.target, ast.Name) else set())):
            cur = env.vars.get(name, UNDEF)
            if name in spec.extra_locals:
                env.vars[name] = spec.extra_locals[name](self)
            elif cur is UNDEF or cur is None or cur is self.POISON:
                env.vars[name] = self.POISON
            elif isinstance(cur, (Obj, DequeV, EnumMap, EnumSet, LockV, EnvFn, FuncV, BoundV, LambdaV, ClassV, dict, list)):
                env.vars[name] = self.POISON
            else:
                try:
                    env.vars[name] = self.havoc_value(cur, name)
                except Unsupported:
                    env.vars[name] = self.POISON
        declared = spec.modifies(self, env, ctx) if spec.modifies else []
        for (obj, fld) in declared:
            self.havoc_declared(obj, fld)
        snap = self.snapshot_heap(env)
        if spec.havoc is not None:
            spec.havoc(self, env, ctx)
        if mode == 0:
            if is_for:
                idx = Sym(z3.Int(fresh_name("idx")), "int")
                path.assume(z3.And(term(lo) <= idx.t, idx.t < term(hi)))
                for (n, f) in spec.inv(self, env, idx, ctx):
                    path.assume(f)
                path.assume_checked(True)
                self.assign_target(node.target, idx if seq is None else seq.elem(idx.t), env)
            else:
                for (n, f) in spec.inv(self, env, None, ctx):
                    path.assume(f)
                if not self.is_true(self.eval(node.test, env)):
                    raise PathEnd("loop test false in iteration mode")
            dec0 = spec.decreases(self, env, ctx) if spec.decreases else None
            try:
                self.exec_block(node.body, env)
            except ContinueSig:
                pass
            except BreakSig:
                return
            nxt = wrap_int(idx.t + 1) if is_for else None
            for (what, ok) in self.frame_violations(snap, declared):
                path.oblige(f"{base}/frame/{what}", ok, prop=prop)
            for (n, f) in spec.inv(self, env, nxt, ctx):
                path.oblige(f"{base}/inv-preserved/{n}", f, prop=prop)
            if dec0 is not None:
                dec1 = spec.decreases(self, env, ctx)
                path.oblige(f"{base}/decreases", z3.And(dec1 < dec0, dec0 >= 0), prop=prop)
            path.cover(f"{base}/back-edge")
            raise PathEnd("loop back-edge")
        else:
            if is_for:
                tl, th = term(lo), term(hi)
                end = z3.If(th > tl, th, tl)
                endv = wrap_int(end)
                for (n, f) in spec.inv(self, env, endv, ctx):
                    path.assume(f)
                path.assume_checked(True)
            else:
                for (n, f) in spec.inv(self, env, None, ctx):
                    path.assume(f)
                if self.is_true(self.eval(node.test, env)):
                    raise PathEnd("loop test true in exit mode")
            path.cover(f"{base}/exit")
            self.exec_block(node.orelse, env)

    # ------------------------------------------------------------------ driver
    def run(self, harness, name="harness", max_paths=200000, prefixes=None, time_limit=None):
        """Enumerate all paths of harness(interp).  Returns RunResult."""
        work = [list(p) for p in (prefixes if prefixes is not None else [[]])]
        res = RunResult(name)
        t0 = time.time()
        n = 0
        while work:
            prefix = work.pop()
            n += 1
            if n > max_paths:
                res.errors.append(f"path budget {max_paths} exceeded")
                break
            if time_limit and time.time() - t0 > time_limit:
                res.errors.append("time limit exceeded")
                break
            reset_names()
            path = Path(self.solver, prefix, f"{name}#{n}")
            path.quantified = getattr(self, "quantified", False)
            self.path = path
            self.depth = 0
            self.frames = []
            end = "done"
            try:
                harness(self)
            except PathEnd as e:
                end = f"end:{e}"
            except Unsupported as e:
                end = "unsupported"
                res.unsupported.append(f"{e} [path {prefix}]")
            except PyRaise as e:
                end = "unsupported"
                res.unsupported.append(f"uncaught PyRaise escaped harness: {e.exc!r}")
            res.paths += 1
            res.ends[end.split(":")[0] if not end.startswith("end:") else end] = res.ends.get(end, 0) + 1
            res.obligations.extend(path.obligations)
            res.covers |= path.covers
            work.extend(path.alts)
        res.wall = time.time() - t0
        res.solver_checks = self.solver.checks
        res.solver_time = self.solver.time
        res.functions_entered = set(self.functions_entered)
        return res


    def run_pair(self, harness_a, harness_b, compare, name="pair", max_paths=200000, prefixes=None, time_limit=None):
        """Guided co-execution (relational proof): every path of A is followed by B *under A's path condition and A's
        environment choices* (same fresh-symbol numbering, so the k-th environment answer is the same symbol on both sides).
        Branches of B that A's path condition decides are forced; where B distinguishes more than A it forks, and every such
        B path is compared with the A path.  compare(interp, info_a, info_b, path_b) states the relational obligations
        (checked under the joint path condition).  No structural similarity of the two bodies is required."""
        work = [list(p) for p in (prefixes if prefixes is not None else [[]])]
        res = RunResult(name)
        t0 = time.time()
        n = 0

        def run_side(harness, path, side, prefix):
            self.path = path
            self.depth = 0
            self.frames = []
            end, out = "done", None
            try:
                out = harness(self)
            except PathEnd as e:
                end = f"end:{e}"
            except Unsupported as e:
                end = "unsupported"
                res.unsupported.append(f"{side}: {e} [path {prefix}]")
            except PyRaise as e:
                end = "unsupported"
                res.unsupported.append(f"{side}: uncaught PyRaise {e.exc!r}")
            return {"taken": list(path.taken), "alts": list(path.alts), "pc": list(path.pc), "end": end, "trace": list(path.trace),
                    "out": out, "path": path, "choices": list(path.choices), "guide_mismatch": path.guide_mismatch}

        while work:
            prefix = work.pop()
            n += 1
            if n > max_paths or (time_limit and time.time() - t0 > time_limit):
                res.errors.append("budget exceeded")
                break
            reset_names()
            pa = Path(self.solver, prefix, f"{name}#{n}A")
            pa.quantified = getattr(self, "quantified", False)
            pa.check_obligations = False
            a = run_side(harness_a, pa, "A", prefix)
            work.extend(a["alts"])
            res.paths += 1
            res.ends[a["end"]] = res.ends.get(a["end"], 0) + 1
            if a["end"] in ("end:infeasible", "end:assume False"):
                continue
            bwork = [[]]
            m = 0
            while bwork:
                bprefix = bwork.pop()
                m += 1
                reset_names()
                pb = Path(self.solver, bprefix, f"{name}#{n}B{m}")
                pb.quantified = getattr(self, "quantified", False)
                pb.check_obligations = False
                pb.guide(a["pc"], a["choices"])
                b = run_side(harness_b, pb, "B", prefix)
                bwork.extend(b["alts"])
                if b["end"] in ("end:infeasible", "end:assume False"):
                    continue
                if a["end"] == "unsupported" or b["end"] == "unsupported":
                    continue  # already recorded as undecided; a relational verdict over half a path would be meaningless
                pb.check_obligations = True
                compare(self, a, b, pb)
                res.obligations.extend(pb.obligations)
                res.covers |= pb.covers
        res.wall = time.time() - t0
        res.solver_checks = self.solver.checks
        res.solver_time = self.solver.time
        res.functions_entered = set(self.functions_entered)
        return res

    def run_product(self, harness_a, harness_b, compare, name="product", max_paths=200000):
        """Product proof under a shared environment oracle: both sides are explored completely; two paths are paired when
        they made the same environment choices (so the k-th environment answer is the same symbol on both sides) and their
        path conditions are jointly satisfiable; compare(interp, a, b, path) states the relational obligations per pair.
        Coverage: every path of either side must be paired at least once."""
        res = RunResult(name)
        t0 = time.time()
        sides = []
        for side, harness in (("A", harness_a), ("B", harness_b)):
            infos = []
            work = [[]]
            while work:
                prefix = work.pop()
                reset_names()
                path = Path(self.solver, prefix, f"{name}/{side}#{len(infos)+1}")
                path.quantified = getattr(self, "quantified", False)
                path.check_obligations = False
                self.path = path
                self.depth = 0
                self.frames = []
                end, out = "done", None
                try:
                    out = harness(self)
                except PathEnd as e:
                    end = f"end:{e}"
                except Unsupported as e:
                    end = "unsupported"
                    res.unsupported.append(f"{side}: {e} [path {prefix}]")
                except PyRaise as e:
                    end = "unsupported"
                    res.unsupported.append(f"{side}: uncaught PyRaise {e.exc!r}")
                infos.append({"taken": list(path.taken), "pc": list(path.pc), "end": end, "trace": list(path.trace), "out": out,
                              "choices": tuple(path.choices), "paired": 0, "id": path.path_id})
                work.extend(path.alts)
                if len(infos) > max_paths:
                    res.errors.append("path budget exceeded")
                    break
            sides.append(infos)
        A, B = sides
        res.paths = len(A) + len(B)
        by_key = {}
        for b in B:
            by_key.setdefault(b["choices"], []).append(b)
        chk = Path(self.solver, [], f"{name}/pairs")
        pairs = 0
        for a in A:
            for b in by_key.get(a["choices"], []):
                r, _, _ = self.solver.check(a["pc"] + b["pc"])
                if r == z3.unsat:
                    continue
                a["paired"] += 1
                b["paired"] += 1
                pairs += 1
                p = Path(self.solver, [], f"{a['id']}x{b['id']}")
                for f in a["pc"] + b["pc"]:
                    p._add_pc(f)
                compare(self, a, b, p)
                res.obligations.extend(p.obligations)
                res.covers |= p.covers
        unpaired = [x for x in A + B if x["paired"] == 0 and x["end"] != "unsupported"]
        a_keys = {}
        for a in A:
            a_keys.setdefault(a["choices"], []).append(a)
        det = []
        for x in unpaired[:4]:
            other = (by_key if x in A else a_keys).get(x["choices"], [])
            det.append({"id": x["id"], "end": x["end"], "choices": [f"{l}={v}" for l, v in x["choices"]][-14:],
                        "same_choices_on_other_side": len(other), "pc_tail": [str(f)[:120] for f in x["pc"][-6:]]})
        chk.oblige(f"{name}/every-path-of-either-side-has-a-counterpart", not unpaired, detail=det + [{"count": len(unpaired)}])
        res.obligations.extend(chk.obligations)
        res.ends["pairs"] = pairs
        res.wall = time.time() - t0
        res.solver_checks = self.solver.checks
        res.solver_time = self.solver.time
        res.functions_entered = set(self.functions_entered)
        return res

    def frontier(self, harness, depth):
        """prefixes partitioning the path space: every complete path shorter than `depth` decisions, and
        every feasible decision prefix of length `depth`."""
        leaves = []
        work = [[]]
        while work:
            prefix = work.pop()
            reset_names()
            path = Path(self.solver, prefix, "frontier")
            path.quantified = getattr(self, "quantified", False)
            path.check_obligations = False
            path.stop_at = depth
            self.path = path
            self.depth = 0
            self.frames = []
            try:
                harness(self)
            except (PathEnd, Unsupported, PyRaise):
                pass
            leaves.append(list(path.taken))
            work.extend(path.alts)
        return leaves


class RunResult:
    def __init__(self, name):
        self.name = name
        self.paths = 0
        self.ends = {}
        self.obligations = []
        self.unsupported = []
        self.errors = []
        self.covers = set()
        self.wall = 0.0
        self.solver_checks = 0
        self.solver_time = 0.0
        self.functions_entered = set()

    def merge(self, other):
        self.paths += other.paths
        for k, v in other.ends.items():
            self.ends[k] = self.ends.get(k, 0) + v
        self.obligations.extend(other.obligations)
        self.unsupported.extend(other.unsupported)
        self.errors.extend(other.errors)
        self.covers |= other.covers
        self.wall = max(self.wall, other.wall)
        self.solver_checks += other.solver_checks
        self.solver_time += other.solver_time
        self.functions_entered |= other.functions_entered
