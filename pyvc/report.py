"""Aggregation of task results into verdict, evidence file and replay files."""
from __future__ import annotations

import json
import re
import time
from collections import Counter, defaultdict
from pathlib import Path

ROOT = Path(__file__).resolve().parent.parent

GLOBAL_ASSUMPTIONS = [
    "A1: finite float arithmetic is exact real arithmetic (rounding ignored); range, inf and NaN behaviour is modelled "
    "where a value is declared extended (strategy outputs, retry-after hints, strategy parameters)",
    "A2: single inheritance among the named exception classes; a user subclass behaves like its nearest named ancestor",
    "A3: time.monotonic() is non-decreasing",
    "A4: user callbacks are arbitrary (any return value of the declared type, any exception class) unless the property's "
    "quantifier restricts them; they do not re-enter or reconfigure the same policy/breaker/budget object",
    "A5: getattr(obj, name, default) on a built-in-valued attribute does not raise",
    "A6: CPython try/except/finally, bare raise and with-statement semantics as documented",
    "engine: /verif/pyvc symbolic executor (own AST->z3 VC generation over the subset in DESIGN.md 2.3) is trusted; "
    "its semantics is cross-checked against CPython on concrete inputs (xcheck tasks) and by self-mutation (thorough)",
]


COMPONENT_PROPS = {"C06", "C10", "C18", "C19", "C20"}  # replay/components.py: native search for the data components
SCENARIO_PROPS = {"C01", "C02", "C03", "C04", "C05", "C07", "C08", "C09", "C11", "C12", "C13", "C14", "C15", "C16"}


def relevant(o, prop):
    # "ANY" is a development aid (tools/eval_refactor.sh): every task, every obligation; it is not a registered check
    return prop == "ANY" or o["prop"] in (prop, None, "safety")


def finish(prop, tier, seed, tasks, results, wall, known, extra=None):
    from pyvc.check import replay_native

    crashes = [r for r in results if r.get("crash")]
    unsupported = [(r["task"], u) for r in results for u in r["unsupported"]]
    errors = [(r["task"], e) for r in results for e in r["errors"]]
    obls = []
    for r in results:
        for o in r["obligations"]:
            if relevant(o, prop):
                o = dict(o)
                o["task"] = r["task"]
                obls.append(o)

    by_name = defaultdict(list)
    for o in obls:
        by_name[o["name"]].append(o)
    named_total = len(by_name)
    named_discharged = sum(1 for n, os_ in by_name.items() if all(o["status"] == "discharged" for o in os_))
    failed = [o for o in obls if o["status"] == "failed"]
    undecided = [o for o in obls if o["status"] == "undecided"]
    failed_names = sorted({o["name"] for o in failed})

    # ---- vacuity guards
    guard_msgs = []
    for r in results:
        if r.get("crash"):
            continue
        if r.get("bounded"):
            continue
        if len(r["obligations"]) == 0 and not r.get("no_obligations_ok"):
            guard_msgs.append(f"task {r['task']}: generated zero obligations")
        missing = [c for c in r.get("expect_covers", []) if c not in r["covers"]]
        if missing:
            guard_msgs.append(f"task {r['task']}: reachability covers not reached: {missing}")

    # ---- known findings
    open_f = [f for f in known if f.get("status") == "open" and (prop == "ANY" or prop in ([f["property"]] + f.get("also", [])))]
    fixed_f = [f for f in known if f.get("status") == "fixed" and (prop == "ANY" or prop in ([f["property"]] + f.get("also", [])))]
    known_lines = []
    unmatched = []
    matched_by = defaultdict(list)
    # a failing obligation instance is covered by a listed finding only if its name AND the task (call site / configuration) it failed in
    # match the finding; a name with any uncovered failing instance is reported
    for name in failed_names:
        insts = [o for o in failed if o["name"] == name]
        covered_all = True
        for o in insts:
            m = [f for f in open_f if re.search(f["obligation"], name) and re.search(f.get("task", ""), o.get("task") or "")]
            if m:
                for f in m:
                    if name not in matched_by[f["id"]]:
                        matched_by[f["id"]].append(name)
            else:
                covered_all = False
        if not covered_all:
            unmatched.append(name)
    finding_status = {}
    for f in open_f:
        names = matched_by.get(f["id"], [])
        rep = None
        if f.get("witness"):
            rep = replay_native(f["witness"]["script"], f["witness"].get("payload", {}))
        finding_status[f["id"]] = {"failed_obligations": names, "witness": rep}
        if names:
            if rep is not None and not rep.get("reproduced"):
                # the listed witness no longer fails natively but the obligation still does: a different violation
                unmatched.extend(names)
            else:
                known_lines.append(f"KNOWN-FINDING: property={prop} {f['id']} {f['what']}")
        else:
            if rep is not None and rep.get("reproduced"):
                # witness reproduces but no obligation fails: the check lost its teeth
                guard_msgs.append(f"known finding {f['id']} reproduces natively but no obligation failed")
    for f in fixed_f:
        # a fixed entry suppresses nothing; its witness must no longer reproduce
        if f.get("witness"):
            rep = replay_native(f["witness"]["script"], f["witness"].get("payload", {}))
            finding_status[f["id"]] = {"fixed": True, "witness": rep}
            if rep.get("reproduced"):
                unmatched.append(f"regression-of-fixed-finding/{f['id']}")
                failed.append({"name": f"regression-of-fixed-finding/{f['id']}", "status": "failed", "model": rep,
                               "task": "native-witness", "prop": prop, "time_s": 0, "backend": "native", "path": None,
                               "detail": f["what"]})

    # ---- replay of fresh counterexamples
    violations = []
    import os
    evdir = Path(os.environ.get("VERIF_EVIDENCE_DIR", str(ROOT / "evidence")))
    replay_dir = evdir / "replay"
    replay_dir.mkdir(parents=True, exist_ok=True)
    task_by_name = {t.name: t for t in tasks}
    for name in sorted(set(unmatched)):
        o = next(x for x in failed if x["name"] == name)
        safe = re.sub(r"[^A-Za-z0-9_.-]+", "_", name)[:120]
        rp = replay_dir / f"{prop}_{safe}.json"
        t = task_by_name.get(o.get("task"))
        rep = None
        script = getattr(t, "replay_script", None) if t else None
        if script is None and prop in SCENARIO_PROPS:
            script = "scenario.py"  # native scenario search with property oracles, seeded by the counter-model
        elif script is None and prop in COMPONENT_PROPS:
            script = "components.py"
        elif script is None and prop == "C17":
            script = "schedules.py"  # systematic schedule exploration (bounded: <= 2 pre-emptions) against linearizability
        payload = None
        if name.startswith("regression-of-fixed-finding/"):
            # the witness of the fixed finding is the failing input, and it has just been replayed on this tree
            fk = next(f for f in known if f["id"] == name.split("/", 1)[1])
            script, payload, rep = fk["witness"]["script"], fk["witness"].get("payload", {}), o.get("model")
        elif script:
            try:
                payload = {"obligation": name, "model": o.get("model"), "detail": o.get("detail"), "property": prop,
                           "budget_s": 20, "seed": seed}
                rep = replay_native(script, payload)
                fallback = "components.py" if prop in COMPONENT_PROPS else ("schedules.py" if prop == "C17" else None)
                if not (rep or {}).get("reproduced") and fallback and script != fallback:
                    # the counter-model did not concretise to a failing input: look for one with the property oracles
                    rep2 = replay_native(fallback, payload, timeout=300)
                    if rep2.get("reproduced"):
                        script, rep = fallback, rep2
            except Exception as e:  # pragma: no cover
                rep = {"reproduced": None, "error": str(e)}
        data = {"property": prop, "obligation": name, "task": o.get("task"), "path": o.get("path"),
                "backend": o.get("backend"), "solver_model": o.get("model"), "detail": o.get("detail"),
                "script": script, "payload": payload, "native_replay": rep}
        rp.write_text(json.dumps(data, indent=1, default=str))
        reproduced = bool(rep and rep.get("reproduced"))
        violations.append((name, rp, reproduced))

    # ---- bounded native stand-in when the deductive check could not decide (crash / outside the subset / solver unknown):
    # a seeded search over scripted scenarios on the REAL code with oracles written from the property statement.  It can only
    # add a replayed failing input (a genuine violation); finding nothing leaves the verdict undecided / crashed - never "held".
    native_search = None
    open_props = {q for f in known if f.get("status") == "open" for q in [f["property"]] + f.get("also", [])}
    stuck = bool(crashes or undecided or unsupported or errors)
    # thorough tier: the same search also runs next to a decided proof (defence against an unsound stdlib model in the engine),
    # except for properties with an open known finding, which the oracles would rediscover
    search_script = "scenario.py" if prop in SCENARIO_PROPS else ("components.py" if prop in COMPONENT_PROPS else (
        "schedules.py" if prop == "C17" else None))
    if not violations and search_script and (stuck or (tier == "thorough" and prop not in open_props)):
        budget = 60 if tier == "thorough" else 25
        try:
            payload = {"obligation": "undecided", "model": None, "property": prop, "budget_s": budget, "seed": seed or 1}
            rep = replay_native(search_script, payload, timeout=budget * 4 + 60)
        except Exception as e:  # pragma: no cover
            rep = {"reproduced": None, "error": str(e)}
        native_search = {"label": "bounded", "script": search_script, "budget_s": budget, "scenarios_tried": rep.get("scenarios_tried"),
                         "reproduced": bool(rep.get("reproduced")), "violated_clause": rep.get("violated_clause")}
        if stuck and not rep.get("reproduced") and prop == "C07":
            # C07 also quantifies over direct breaker operations: histories on the breaker object itself (components.py, C07 oracle)
            try:
                rep_c = replay_native("components.py", payload, timeout=budget * 4 + 60)
            except Exception as e:  # pragma: no cover
                rep_c = {"reproduced": None, "error": str(e)}
            native_search["breaker_histories"] = {"tried": rep_c.get("scenarios_tried"), "reproduced": bool(rep_c.get("reproduced"))}
            if rep_c.get("reproduced"):
                rep, search_script = rep_c, "components.py"
                native_search.update(reproduced=True, violated_clause=rep_c.get("violated_clause"), script="components.py")
        if stuck and not rep.get("reproduced"):
            # last resort, only next to an undecided proof: the independent oracle programs stored with the seeded changes of this property
            try:
                rep_d = replay_native("demos.py", payload, timeout=900)
            except Exception as e:  # pragma: no cover
                rep_d = {"reproduced": None, "error": str(e)}
            native_search["stored_oracles"] = {"tried": rep_d.get("scenarios_tried"), "reproduced": bool(rep_d.get("reproduced"))}
            if rep_d.get("reproduced"):
                rep, search_script = rep_d, "demos.py"
                native_search.update(reproduced=True, violated_clause=rep_d.get("violated_clause"), script="demos.py")
        if rep.get("reproduced"):
            name = f"native-search/{prop}/{rep.get('violated_clause') or 'property-oracle'}"
            rp = replay_dir / f"{prop}_native-search.json"
            rp.write_text(json.dumps({"property": prop, "obligation": name, "task": f"native search {search_script} (bounded stand-in)",
                                      "why": ("the deductive check was undecided on this tree (see UNDECIDED / ENGINE-CRASH lines)" if stuck else
                                              "found by the bounded native search of the thorough tier although every obligation discharged: "
                                              "the engine's model of Python or a contract is unsound here"),
                                      "script": search_script, "payload": payload, "native_replay": rep}, indent=1, default=str))
            violations.append((name, rp, True))

    # ---- verdict
    if violations:
        code = 1
    elif crashes:
        code = 3
    elif guard_msgs or errors:
        code = 3
    elif undecided or unsupported:
        code = 2
    elif named_total == 0:
        code = 3
    else:
        code = 0

    # ---- evidence
    funcs = {}
    trusted = {}
    for r in results:
        funcs.update(r.get("functions", {}))
        trusted.update(r.get("trusted", {}))
    known_names = {n for ns in matched_by.values() for n in ns}
    claimed_total = named_total - len(known_names)
    backends = Counter(o["backend"] for o in obls if o["status"] == "discharged")
    solver_time = round(sum(o["time_s"] for o in obls), 3)
    samples = []
    seen = set()
    for o in sorted(obls, key=lambda x: -x["time_s"]):
        if o["name"] in seen:
            continue
        seen.add(o["name"])
        samples.append({"obligation": o["name"], "status": o["status"], "backend": o["backend"],
                        "time_s": o["time_s"], "task": o["task"], "path": o["path"]})
        if len(samples) >= 12:
            break
    bounded = [r["bounded"] for r in results if r.get("bounded")]
    ev = {
        "property_id": prop,
        "tier": tier,
        "seed": seed,
        "level": "proof",
        "coverage": {
            "obligations": claimed_total,
            "discharged": named_discharged,
            "obligations_including_known_findings": named_total,
            "obligation_instances": len(obls),
            "instances_discharged": sum(1 for o in obls if o["status"] == "discharged"),
            "failed_known": sorted({n for ns in matched_by.values() for n in ns}),
            "failed_new": sorted({v[0] for v in violations}),
            "undecided": sorted({o["name"] for o in undecided}),
            "unsupported": [f"{t}: {u}" for t, u in unsupported][:20],
            "checker_cmd": f"./check {prop} --tier {tier}",
            "backends": dict(backends),
            "solver_time_s": solver_time,
            "paths": sum(r["paths"] for r in results),
            "tasks": [{"task": r["task"], "paths": r["paths"], "wall_s": round(r["wall"], 2),
                       "obligation_instances": len(r["obligations"]), "covers": len(r["covers"])} for r in results],
            "functions_under_contract": {k: funcs[k] for k in sorted(funcs)},
            "declared_functions": sorted({f for r in results for f in r.get("declared_functions", [])}),
            "contracts_used_at_call_sites": {
                k: ("body proved in this run" if any(k in r.get("declared_functions", []) and k not in r.get("contracts_applied", []) for r in results)
                    else "assumed here (proved by another property's check or trusted - see trusted_base)")
                for k in sorted({c for r in results for c in r.get("contracts_applied", [])})},
            "trusted_base": sorted(f"{k}: {v}" for k, v in trusted.items()) + ["engine /verif/pyvc (see assumptions)"],
            "vacuity": {"guard_failures": guard_msgs,
                        "covers_reached": sum(len(r["covers"]) for r in results)},
            "known_findings": finding_status,
            "bounded": bounded + ([native_search] if native_search else []),
            **(extra or {}),
            "samples": samples,
            "explanation": (
                "Named obligations are generated from /repo's current source by symbolic execution against the sidecar "
                "contracts; 'obligations' counts distinct names that this run claims (obligations failing only because of a listed "
                "known finding are excluded from it and listed under failed_known - they are NOT discharged and not counted as "
                "such), 'obligation_instances' counts (name, path) pairs. discharged < obligations means some obligation failed "
                "or is undecided (listed above)."),
            "source_root": str(__import__("pyvc.source", fromlist=["SRC_ROOT"]).SRC_ROOT),
        },
        "assumptions": GLOBAL_ASSUMPTIONS + sorted({a for t in tasks for a in getattr(t, "assumptions", [])}),
        "wall_s": round(wall, 2),
        "violations": len(violations),
    }
    evdir.mkdir(parents=True, exist_ok=True)
    (evdir / f"{prop}.json").write_text(json.dumps(ev, indent=1, default=str))

    # ---- report
    print(f"[{prop}] tier={tier} tasks={len(results)} paths={ev['coverage']['paths']} obligations={named_total} "
          f"discharged={named_discharged} instances={len(obls)} solver_time={solver_time}s wall={wall:.1f}s")
    for r in crashes:
        print(f"ENGINE-CRASH task={r['task']}\n{r['crash']}")
    for t, u in unsupported[:10]:
        print(f"UNDECIDED (outside subset) task={t}: {u}")
    for o in undecided[:10]:
        print(f"UNDECIDED (solver) {o['name']} task={o['task']} {o.get('model')}")
    for g in guard_msgs:
        print(f"GUARD: {g}")
    for t, e in errors:
        print(f"ERROR task={t}: {e}")
    for line in known_lines:
        print(line)
    for name, rp, reproduced in violations:
        tail = "" if reproduced else " no-failing-input-found"
        print(f"failed obligation: {name}")
        print(f"VIOLATION property={prop} replay={rp}{tail}")
    print(f"exit {code}")
    return code
