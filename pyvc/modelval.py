"""helpers to turn z3 model values into JSON-able python values for native replay"""
import sys
from fractions import Fraction

import z3



def val(m, t):
    v = m.eval(t, model_completion=True)
    if z3.is_int_value(v):
        # counter-models may carry ints beyond CPython's default str() limit (C19); lifted only for this conversion, because the
        # executor's concrete mode relies on the host's default limit
        old = sys.get_int_max_str_digits()
        sys.set_int_max_str_digits(0)
        try:
            return v.as_long()
        finally:
            sys.set_int_max_str_digits(old)
    if z3.is_rational_value(v):
        f = Fraction(v.numerator_as_long(), v.denominator_as_long())
        return float(f)
    if z3.is_true(v):
        return True
    if z3.is_false(v):
        return False
    if z3.is_string_value(v):
        return v.as_string()
    if z3.is_algebraic_value(v):
        return float(v.approx(20).as_fraction())
    return str(v)


def arr_slice(m, arr, lo, hi, cap=24):
    a, b = val(m, lo), val(m, hi)
    if not isinstance(a, int) or not isinstance(b, int) or b - a > cap or b < a:
        return None
    return [val(m, z3.Select(arr, z3.IntVal(i))) for i in range(a, b)]
