"""Expression evaluation mixin."""
from __future__ import annotations

import ast
import math

import z3

from . import ops
from .ops import bterm, kind, rterm, term, to_sfloat, wrap_bool, wrap_int, wrap_real
from .path import PathEnd, Unsupported
from .values import (OpaqueArgs, FIN, NAN, NINF, PINF, UNDEF, AnyV, BoundV, ClassV, DequeV, EnumMap, EnumSet, EnumVal,
                     EnvFn, ExtV, FuncV, LambdaV, LockV, ModuleV, Obj, Ref, SFloat, SOpt, Sym, TimeDelta,
                     fresh_name, PySet, GenExp, MethodRef, Absentable, SeqV)


# IEEE-754 binary64 facts of the host platform (CPython's float): exact Python values
EXT_CONSTANTS = {"sys.float_info.max_exp": 1024, "sys.float_info.min_exp": -1021, "sys.float_info.max": 1.7976931348623157e308,
                 "sys.float_info.mant_dig": 53, "sys.float_info.max_10_exp": 308, "sys.float_info.epsilon": 2.220446049250313e-16,
                 "sys.maxsize": 2 ** 63 - 1}

class PyRaise(Exception):
    def __init__(self, exc, cause=UNDEF, node=None):
        self.exc = exc
        self.cause = cause
        self.node = node


class Env:
    def __init__(self, func, module, parent=None):
        self.func = func  # FuncInfo or None
        self.module = module
        self.parent = parent
        self.vars = {}
        self.handling = []  # stack of exceptions being handled (for bare raise)

    def lookup(self, name):
        e = self
        while e is not None:
            if name in e.vars:
                return e.vars[name]
            e = e.parent
        return UNDEF


BUILTIN_NAMES = {
    "len", "isinstance", "getattr", "callable", "max", "min", "float", "int", "str", "range", "dict",
    "set", "tuple", "type", "hasattr", "sum", "bool", "list", "object", "super", "repr", "abs", "setattr",
    "issubclass", "iter", "next", "sorted", "any", "all", "enumerate", "zip", "frozenset", "round",
}


class ExprMixin:
    # ------------------------------------------------------------------ names
    def lookup_name(self, env: Env, name: str):
        v = env.lookup(name)
        if v is not UNDEF:
            if v is self.POISON:
                raise Unsupported(f"read of loop-havoced unset local {name}")
            return v
        if env.func is not None and name in self._locals_of(env.func):
            # a local that is assigned somewhere in this function but not on this path: CPython raises UnboundLocalError
            # (a NameError, hence an ordinary Exception; the lattice has no leaf of its own for it)
            e = self.make_exc("Exception")
            e.tag = "raised-by-code"
            e.fields["args"] = (f"UnboundLocalError: {name}",)
            raise PyRaise(e)
        return self.lookup_global(env.module, name)

    def _locals_of(self, info):
        cache = self.__dict__.setdefault("_locals_cache", {})
        if info.key not in cache:
            names = set()
            nonlocal_ = set()
            for n in ast.walk(info.node):
                if n is not info.node and isinstance(n, (ast.FunctionDef, ast.AsyncFunctionDef, ast.Lambda, ast.ClassDef)):
                    if isinstance(n, (ast.FunctionDef, ast.AsyncFunctionDef, ast.ClassDef)):
                        names.add(n.name)
                    continue
                if isinstance(n, ast.Name) and isinstance(n.ctx, ast.Store):
                    names.add(n.id)
                elif isinstance(n, (ast.Global, ast.Nonlocal)):
                    nonlocal_ |= set(n.names)
                elif isinstance(n, ast.ExceptHandler) and n.name:
                    names.add(n.name)
            # names stored only inside nested functions were collected too (ast.walk descends): remove those that are not
            # stored at this function's own level
            own = set()
            stack = list(ast.iter_child_nodes(info.node))
            while stack:
                n = stack.pop()
                if isinstance(n, (ast.FunctionDef, ast.AsyncFunctionDef, ast.Lambda, ast.ClassDef)):
                    if not isinstance(n, ast.Lambda):
                        own.add(n.name)
                    continue
                if isinstance(n, ast.Name) and isinstance(n.ctx, ast.Store):
                    own.add(n.id)
                elif isinstance(n, ast.ExceptHandler) and n.name:
                    own.add(n.name)
                elif isinstance(n, (ast.comprehension,)):
                    continue
                stack.extend(ast.iter_child_nodes(n))
            cache[info.key] = own - nonlocal_
        return cache[info.key]

    def lookup_global(self, module, name):
        r = self.tree.resolve_name(module, name)
        if r is not None:
            return self.value_of_resolution(r)
        if name in BUILTIN_NAMES:
            return ExtV(name)
        from .excs import EXT_CLASS_NAMES
        if name in EXT_CLASS_NAMES:
            return ExtV(name)
        if name in ("True", "False", "None"):
            return {"True": True, "False": False, "None": None}[name]
        raise Unsupported(f"unresolved name {name} in {module.name}")

    def value_of_resolution(self, r):
        k = r[0]
        if k == "func":
            return FuncV(r[1])
        if k == "class":
            return ClassV(r[1])
        if k == "module":
            nm = r[1]
            return ModuleV(nm, nm in self.tree.modules)
        if k == "extattr":
            return ExtV(f"{r[1]}.{r[2]}")
        if k == "assign":
            m, node = r[1], r[2]
            key = (m.name, id(node))
            if key not in self._modconst_cache:
                self._modconst_cache[key] = self.eval(node, Env(None, m))
            return self._modconst_cache[key]
        raise Unsupported(str(r))

    # ------------------------------------------------------------------ truthiness
    def truth(self, v):
        """python bool or z3 Bool"""
        if v is None:
            return False
        if isinstance(v, bool):
            return v
        if isinstance(v, (int, float)):
            return v != 0
        if isinstance(v, (str, tuple, list, dict, set, frozenset)):
            return len(v) > 0
        if isinstance(v, Sym):
            if v.ty == "bool":
                return v.t
            if v.ty in ("int", "real"):
                return v.t != 0
            if v.ty == "str":
                return z3.Length(v.t) > 0
        if isinstance(v, SFloat):
            return z3.Not(z3.And(v.k == FIN, v.v == 0))
        if isinstance(v, SOpt):
            inner = self.truth(v.val)
            it = z3.BoolVal(inner) if isinstance(inner, bool) else inner
            return z3.And(z3.Not(v.none), it)
        if isinstance(v, EnumVal):
            return True
        if isinstance(v, Obj):
            if v.cls is not None and self.tree.find_method(v.cls, "__bool__"):
                raise Unsupported("__bool__")
            return True
        if isinstance(v, (EnvFn, FuncV, BoundV, LambdaV, ClassV, ExtV, ModuleV, LockV)):
            return True
        if isinstance(v, Ref):
            if v.truthy is None:
                v.truthy = z3.Bool(fresh_name("truthy"))
            return v.truthy
        if isinstance(v, DequeV):
            return v.hi > v.lo
        if isinstance(v, EnumMap):
            alts = []
            for n, sv in v.slots.items():
                if sv is None:
                    continue
                alts.append(z3.Not(sv.none) if isinstance(sv, SOpt) else z3.BoolVal(True))
            return z3.Or(alts) if alts else False
        if isinstance(v, EnumSet):
            return z3.Or([bterm(x) if not isinstance(x, bool) else z3.BoolVal(x) for x in v.slots.values()])
        if isinstance(v, TimeDelta):
            return v.s != 0
        if isinstance(v, AnyV):
            return self.any_truth(v)
        raise Unsupported(f"truth({v!r})")

    def is_true(self, v) -> bool:
        """Decide truthiness on this path (forks if undetermined)."""
        return self.path.branch(self.truth(v))

    # ------------------------------------------------------------------ optional handling
    def force(self, v):
        """Resolve a lazily-optional value: returns None or the payload (forks)."""
        while isinstance(v, SOpt):
            if self.path.branch(v.none):
                return None
            v = v.val
        return v

    def is_none(self, v):
        if v is None:
            return True
        if isinstance(v, SOpt):
            return v.none
        if isinstance(v, AnyV):
            return v.tag == self.any_tags["None"]
        return False

    # ------------------------------------------------------------------ eval
    def eval(self, node, env):
        m = getattr(self, "e_" + type(node).__name__, None)
        if m is None:
            raise Unsupported(f"expression {type(node).__name__} at line {getattr(node,'lineno','?')}")
        return m(node, env)

    def e_Constant(self, node, env):
        return node.value

    def e_NamedExpr(self, node, env):
        v = self.eval(node.value, env)
        self.assign_target(node.target, v, env)
        return v

    def e_SetComp(self, node, env):
        return PySet(self.run_comprehension(node, env))

    def e_Name(self, node, env):
        return self.lookup_name(env, node.id)

    def e_Tuple(self, node, env):
        out = []
        for e in node.elts:
            if isinstance(e, ast.Starred):
                out.extend(self.iterate(self.eval(e.value, env)))
            else:
                out.append(self.eval(e, env))
        return tuple(out)

    def e_List(self, node, env):
        return list(self.e_Tuple(node, env))

    def e_Set(self, node, env):
        return self.eval_set_items([self.eval(e, env) for e in node.elts])

    def eval_set_items(self, vals):
        if vals and all(isinstance(v, EnumVal) for v in vals) and len({v.cls.key for v in vals}) == 1:
            ci = vals[0].cls
            names = [self.enum_concrete_name(v) for v in vals]
            if all(n is not None for n in names):
                return EnumSet(ci, {n: (n in names) for n, _ in ci.enum_members})
        return PySet(vals)

    def e_Dict(self, node, env):
        d = {}
        for k, v in zip(node.keys, node.values):
            if k is None:
                inner = self.eval(v, env)
                if not isinstance(inner, dict):
                    raise Unsupported("** of non-dict")
                d.update(inner)
            else:
                kk = self.eval(k, env)
                if not isinstance(kk, (str, int)):
                    raise Unsupported("dict display with non-constant key")
                d[kk] = self.eval(v, env)
        return d

    def e_JoinedStr(self, node, env):
        parts = []
        concrete = True
        for v in node.values:
            if isinstance(v, ast.Constant):
                parts.append(v.value)
            else:
                x = self.eval(v.value, env)
                if isinstance(x, (str, int, float)) and v.conversion == -1:
                    parts.append(str(x))
                else:
                    concrete = False
        if concrete:
            return "".join(parts)
        return Sym(z3.String(fresh_name("fstr")), "str")

    def e_Lambda(self, node, env):
        return LambdaV(node, env, env.module)

    def e_IfExp(self, node, env):
        if self.is_true(self.eval(node.test, env)):
            return self.eval(node.body, env)
        return self.eval(node.orelse, env)

    def e_BoolOp(self, node, env):
        is_and = isinstance(node.op, ast.And)
        v = None
        for i, e in enumerate(node.values):
            v = self.eval(e, env)
            if i == len(node.values) - 1:
                return v
            t = self.truth(v)
            # keep pure boolean combinations symbolic (no fork) when both sides are boolean tests
            if (not isinstance(t, bool) and self._all_bool_tests(node.values[i + 1:], env) and self._is_boolish(v)
                    and self._eager_safe(node.values[i + 1:], env)):
                rest = self.eval(ast.BoolOp(op=node.op, values=node.values[i + 1:]) if len(node.values) - i - 1 > 1
                                 else node.values[i + 1], env)
                rt = self.truth(rest)
                rt = z3.BoolVal(rt) if isinstance(rt, bool) else rt
                return wrap_bool(z3.And(t, rt) if is_and else z3.Or(t, rt))
            b = self.path.branch(t)
            if is_and and not b:
                return v
            if not is_and and b:
                return v
        return v

    def _is_boolish(self, v):
        return isinstance(v, bool) or (isinstance(v, Sym) and v.ty == "bool")

    def _all_bool_tests(self, nodes, env):
        """Side-effect-free boolean test expressions only (Compare / not / names bound to bools)."""
        for n in nodes:
            if isinstance(n, ast.Compare):
                if not all(self._pure(x) for x in [n.left] + n.comparators):
                    return False
            elif isinstance(n, ast.UnaryOp) and isinstance(n.op, ast.Not):
                if not self._all_bool_tests([n.operand], env):
                    return False
            elif isinstance(n, ast.BoolOp):
                if not self._all_bool_tests(n.values, env):
                    return False
            else:
                return False
        return True

    def _eager_safe(self, nodes, env):
        """evaluating these (pure) tests eagerly cannot raise or fork: no optional operand in an ordering test"""
        for n in nodes:
            if isinstance(n, ast.Compare):
                vals = []
                try:
                    vals = [self.eval(x, env) for x in [n.left] + n.comparators]
                except Exception:
                    return False
                for op in n.ops:
                    if isinstance(op, (ast.Lt, ast.LtE, ast.Gt, ast.GtE, ast.In, ast.NotIn)):
                        if any(v is None or isinstance(v, (SOpt, AnyV)) for v in vals):
                            return False
            elif isinstance(n, ast.UnaryOp):
                if not self._eager_safe([n.operand], env):
                    return False
            elif isinstance(n, ast.BoolOp):
                if not self._eager_safe(n.values, env):
                    return False
        return True

    def _pure(self, n):
        if isinstance(n, (ast.Constant, ast.Name)):
            return True
        if isinstance(n, ast.Attribute):
            return self._pure(n.value)
        if isinstance(n, ast.Tuple):
            return all(self._pure(e) for e in n.elts)
        if isinstance(n, ast.BinOp):
            return self._pure(n.left) and self._pure(n.right)
        return False

    def e_UnaryOp(self, node, env):
        v = self.eval(node.operand, env)
        if isinstance(node.op, ast.Not):
            t = self.truth(v)
            return (not t) if isinstance(t, bool) else wrap_bool(z3.Not(t))
        if isinstance(node.op, ast.USub):
            return self.binop("-", 0, v)
        if isinstance(node.op, ast.UAdd):
            return v
        raise Unsupported("unary op")

    def e_BinOp(self, node, env):
        a = self.eval(node.left, env)
        b = self.eval(node.right, env)
        opn = {ast.Add: "+", ast.Sub: "-", ast.Mult: "*", ast.Div: "/", ast.Pow: "**", ast.BitOr: "|",
               ast.Mod: "%", ast.FloorDiv: "//"}.get(type(node.op))
        if opn is None:
            raise Unsupported(f"binop {type(node.op).__name__}")
        return self.binop(opn, a, b, node)

    def binop(self, op, a, b, node=None):
        a = self.force_num(a)
        b = self.force_num(b)
        if op == "|":
            if isinstance(a, dict) and isinstance(b, dict):
                return {**a, **b}
            # type unions in isinstance(x, int | float)
            return ("union", a, b)
        if isinstance(a, TimeDelta) or isinstance(b, TimeDelta):
            if op == "-" and isinstance(a, TimeDelta) and isinstance(b, TimeDelta):
                return TimeDelta(z3.simplify(a.s - b.s))
            if op == "+" and isinstance(a, TimeDelta) and isinstance(b, TimeDelta):
                return TimeDelta(z3.simplify(a.s + b.s))
            raise Unsupported("timedelta op")
        if isinstance(a, str) and isinstance(b, str) and op == "+":
            return a + b
        if isinstance(a, AnyV) or isinstance(b, AnyV):
            raise Unsupported("arith on AnyV")
        ka, kb = kind(a), kind(b)
        if ka is None or kb is None:
            raise Unsupported(f"binop {op} on {a!r}, {b!r}")
        if op == "**":
            return self.pow_model(a, b, node)
        if ops.is_concrete_num(a) and ops.is_concrete_num(b) and ka != "xf" and kb != "xf":
            try:
                if op == "+":
                    return a + b
                if op == "-":
                    return a - b
                if op == "*":
                    return a * b
                if op == "/":
                    if b == 0:
                        self.raise_builtin("ZeroDivisionError", node)
                    return a / b
            except OverflowError:
                self.raise_builtin("OverflowError", node)
        if ka == "xf" or kb == "xf":
            x, y = to_sfloat(a), to_sfloat(b)
            if op == "+":
                return ops.xf_add(x, y)
            if op == "-":
                return ops.xf_add(x, y, sub=True)
            if op == "*":
                return ops.xf_mul(x, y)
            if op == "/":
                return self.xf_div(x, y, node)
            raise Unsupported(f"xf op {op}")
        if op in ("+", "-", "*"):
            ta, tb = term(a), term(b)
            if ka == "int" and kb == "int":
                r = {"+": ta + tb, "-": ta - tb, "*": ta * tb}[op]
                return wrap_int(r)
            ra, rb = rterm(a), rterm(b)
            return wrap_real({"+": ra + rb, "-": ra - rb, "*": ra * rb}[op])
        if op == "/":
            ra, rb = rterm(a), rterm(b)
            if self.path.branch(rb == 0):
                self.raise_builtin("ZeroDivisionError", node)
            return wrap_real(ra / rb)
        raise Unsupported(f"binop {op}")

    def xf_div(self, x, y, node):
        if self.path.branch(z3.And(y.k == FIN, y.v == 0)):
            self.raise_builtin("ZeroDivisionError", node)
        x_inf = z3.Or(x.k == PINF, x.k == NINF)
        y_inf = z3.Or(y.k == PINF, y.k == NINF)
        isnan = z3.Or(x.k == NAN, y.k == NAN, z3.And(x_inf, y_inf))
        x_neg = z3.Or(x.k == NINF, z3.And(x.k == FIN, x.v < 0))
        y_neg = z3.Or(y.k == NINF, z3.And(y.k == FIN, y.v < 0))
        neg = z3.Xor(x_neg, y_neg)
        v = z3.If(y_inf, z3.RealVal(0), x.v / y.v)
        k = z3.If(isnan, z3.IntVal(NAN),
                  z3.If(x_inf, z3.If(neg, z3.IntVal(NINF), z3.IntVal(PINF)),
                        z3.If(y_inf, z3.IntVal(FIN), ops._range_wrap(v))))
        return SFloat(z3.simplify(k), v)

    def force_num(self, v):
        if isinstance(v, SOpt):
            v = self.force(v)
            if v is None:
                self.raise_builtin("TypeError")
        return v

    def pow_model(self, a, b, node):
        if ops.is_concrete_num(a) and ops.is_concrete_num(b):
            try:
                return a ** b
            except OverflowError:
                self.raise_builtin("OverflowError", node)
        h = self.ext_models.get("pow")
        if h is None:
            raise Unsupported("symbolic ** without pow model")
        return h(self, a, b, node)

    # ------------------------------------------------------------------ compare
    def e_Compare(self, node, env):
        left = self.eval(node.left, env)
        result = None
        for op, comp in zip(node.ops, node.comparators):
            right = self.eval(comp, env)
            r = self.compare(op, left, right, node)
            if result is None:
                result = r
            else:
                ta = self.truth(result)
                tb = self.truth(r)
                if isinstance(ta, bool) and isinstance(tb, bool):
                    result = ta and tb
                else:
                    result = wrap_bool(z3.And(z3.BoolVal(ta) if isinstance(ta, bool) else ta,
                                              z3.BoolVal(tb) if isinstance(tb, bool) else tb))
            left = right
        return result

    def compare(self, op, a, b, node=None):
        if isinstance(op, ast.Is):
            return self.is_(a, b)
        if isinstance(op, ast.IsNot):
            return self.neg(self.is_(a, b))
        if isinstance(op, ast.In):
            return self.contains(b, a)
        if isinstance(op, ast.NotIn):
            return self.neg(self.contains(b, a))
        if isinstance(op, ast.Eq):
            return self.eq(a, b)
        if isinstance(op, ast.NotEq):
            return self.neg(self.eq(a, b))
        sym = {ast.Lt: "<", ast.LtE: "<=", ast.Gt: ">", ast.GtE: ">="}[type(op)]
        return self.order(sym, a, b)

    def neg(self, v):
        if isinstance(v, bool):
            return not v
        return wrap_bool(z3.Not(bterm(v)))

    def order(self, sym, a, b):
        a = self.force_num(a)
        b = self.force_num(b)
        if isinstance(a, TimeDelta) and isinstance(b, TimeDelta):
            return self._ord_terms(sym, a.s, b.s)
        if isinstance(a, AnyV) or isinstance(b, AnyV):
            return self.any_order(sym, a, b)
        ka, kb = kind(a), kind(b)
        if ka is None or kb is None:
            raise Unsupported(f"order {sym} on {a!r}, {b!r}")
        if ops.is_concrete_num(a) and ops.is_concrete_num(b):
            return {"<": a < b, "<=": a <= b, ">": a > b, ">=": a >= b}[sym]
        if ka == "xf" or kb == "xf":
            return wrap_bool(ops.xf_cmp(sym, to_sfloat(a), to_sfloat(b)))
        if ka == "int" and kb == "int":
            return self._ord_terms(sym, term(a), term(b))
        return self._ord_terms(sym, rterm(a), rterm(b))

    def _ord_terms(self, sym, x, y):
        return wrap_bool({"<": x < y, "<=": x <= y, ">": x > y, ">=": x >= y}[sym])

    def is_(self, a, b):
        if a is b:
            return True
        if b is None or a is None:
            x = a if b is None else b
            n = self.is_none(x)
            return wrap_bool(n) if not isinstance(n, bool) else n
        if isinstance(a, SOpt) or isinstance(b, SOpt):
            na, va = ops.opt_parts(a)
            nb, vb = ops.opt_parts(b)
            inner = self.is_(va, vb)
            it = z3.BoolVal(inner) if isinstance(inner, bool) else bterm(inner)
            return wrap_bool(z3.Or(z3.And(na, nb), z3.And(z3.Not(na), z3.Not(nb), it)))
        if isinstance(a, EnumVal) and isinstance(b, EnumVal):
            if a.cls != b.cls:
                return False
            return wrap_bool(a.t == b.t)
        if isinstance(a, bool) and isinstance(b, bool):
            return a is b
        ia, ib = ops.ident_of(a), ops.ident_of(b)
        if ia is not None and ib is not None:
            return wrap_bool(ia == ib)
        if isinstance(a, (FuncV, ClassV, ExtV)) or isinstance(b, (FuncV, ClassV, ExtV)):
            if isinstance(a, ExtV) and isinstance(b, ExtV):
                return a.name == b.name
            if isinstance(a, ClassV) and isinstance(b, ClassV):
                return a.info == b.info
            return False
        if isinstance(a, Sym) and a.ty == "bool" and isinstance(b, bool):
            return wrap_bool(a.t == b)
        if isinstance(b, Sym) and b.ty == "bool" and isinstance(a, bool):
            return wrap_bool(b.t == a)
        if type(a) is not type(b):
            return False
        raise Unsupported(f"is_({a!r},{b!r})")

    def eq(self, a, b):
        if a is None or b is None:
            return self.is_(a, b)
        if isinstance(a, ExtV) or isinstance(b, ExtV):
            return isinstance(a, ExtV) and isinstance(b, ExtV) and a.name == b.name
        if isinstance(a, SOpt) or isinstance(b, SOpt):
            na, va = ops.opt_parts(a)
            nb, vb = ops.opt_parts(b)
            inner = self.eq(va, vb) if (va is not None and vb is not None) else False
            it = z3.BoolVal(inner) if isinstance(inner, bool) else bterm(inner)
            return wrap_bool(z3.Or(z3.And(na, nb), z3.And(z3.Not(na), z3.Not(nb), it)))
        if isinstance(a, AnyV) or isinstance(b, AnyV):
            return self.any_eq(a, b)
        if isinstance(a, EnumVal) or isinstance(b, EnumVal):
            if isinstance(a, EnumVal) and isinstance(b, EnumVal):
                return self.is_(a, b)
            ev, other = (a, b) if isinstance(a, EnumVal) else (b, a)
            if self.enum_is_str(ev.cls) and (isinstance(other, str) or (isinstance(other, Sym) and other.ty == "str")):
                return wrap_bool(self.enum_value_term(ev) == ops.sterm(other))
            return False
        ka, kb = kind(a), kind(b)
        if ka and kb:
            if ops.is_concrete_num(a) and ops.is_concrete_num(b):
                return a == b
            if ka == "xf" or kb == "xf":
                return wrap_bool(ops.xf_cmp("==", to_sfloat(a), to_sfloat(b)))
            if ka == "int" and kb == "int":
                return wrap_bool(term(a) == term(b))
            return wrap_bool(rterm(a) == rterm(b))
        if isinstance(a, str) and isinstance(b, str):
            return a == b
        if (isinstance(a, str) or (isinstance(a, Sym) and a.ty == "str")) and (
                isinstance(b, str) or (isinstance(b, Sym) and b.ty == "str")):
            return wrap_bool(ops.sterm(a) == ops.sterm(b))
        if isinstance(a, tuple) and isinstance(b, tuple):
            if len(a) != len(b):
                return False
            acc = True
            for x, y in zip(a, b):
                r = self.eq(x, y)
                if r is False:
                    return False
                if r is not True:
                    acc = r if acc is True else wrap_bool(z3.And(bterm(acc), bterm(r)))
            return acc
        if ka or kb:
            # number vs non-number
            if isinstance(a, (str, tuple, Obj, EnvFn)) or isinstance(b, (str, tuple, Obj, EnvFn)):
                return False
        if isinstance(a, (Obj, EnvFn, Ref, DequeV)) and isinstance(b, (Obj, EnvFn, Ref, DequeV)):
            return self.is_(a, b)
        if isinstance(a, TimeDelta) and isinstance(b, TimeDelta):
            return wrap_bool(a.s == b.s)
        raise Unsupported(f"eq({a!r},{b!r})")

    def contains(self, container, item):
        if isinstance(container, PySet):
            container = container.items
        if isinstance(container, (tuple, list)):
            acc = False
            for c in container:
                r = self.eq(item, c)
                if r is True:
                    return True
                if r is not False:
                    acc = r if acc is False else wrap_bool(z3.Or(bterm(acc), bterm(r)))
            return acc
        if isinstance(container, EnumSet):
            item = self.force(item)
            if not isinstance(item, EnumVal):
                return False
            alts = []
            for name, present in container.slots.items():
                pt = z3.BoolVal(present) if isinstance(present, bool) else bterm(present)
                alts.append(z3.And(item.t == self.enum_const(container.cls, name), pt))
            return wrap_bool(z3.Or(alts))
        if isinstance(container, EnumMap):
            raise Unsupported("in EnumMap")
        if isinstance(container, str):
            if isinstance(item, str):
                return item in container
            if isinstance(item, Sym) and item.ty == "str":
                return wrap_bool(z3.Contains(z3.StringVal(container), item.t))
        if isinstance(container, Sym) and container.ty == "str":
            return wrap_bool(z3.Contains(container.t, ops.sterm(item)))
        if isinstance(container, dict):
            if isinstance(item, str):
                return item in container
        raise Unsupported(f"contains({container!r},{item!r})")

    # ------------------------------------------------------------------ attribute / subscript
    def e_Attribute(self, node, env):
        obj = self.eval(node.value, env)
        return self.getattr_value(obj, node.attr, node)

    def e_Subscript(self, node, env):
        obj = self.eval(node.value, env)
        idx = self.eval(node.slice, env)
        return self.getitem(obj, idx, node)

    def getitem(self, obj, idx, node=None):
        obj = self.force(obj)
        if isinstance(obj, (tuple, list)):
            if isinstance(idx, int):
                return obj[idx]
            raise Unsupported("symbolic index into tuple")
        if isinstance(obj, dict):
            k = self.dict_key(idx)
            if k is not None:
                if k in obj:
                    return obj[k]
                self.raise_builtin("KeyError", node)
        if isinstance(obj, DequeV):
            if isinstance(idx, int) and idx == 0:
                if not self.path.branch(obj.hi > obj.lo):
                    self.raise_builtin("IndexError", node)
                return wrap_real(z3.Select(obj.arr, obj.lo))
            raise Unsupported("deque index")
        if isinstance(obj, EnumMap):
            return self.enummap_get(obj, idx, subscript=True, node=node)
        if isinstance(obj, ClassV) and obj.info.is_enum:
            # ErrorClass[name]: member by name, KeyError otherwise
            ci = obj.info
            names = [n for n, _ in ci.enum_members]
            if isinstance(idx, str):
                if idx in names:
                    return self.enum_member(ci, idx)
                self.raise_builtin("KeyError", node)
            st = ops.sterm(idx)
            hit = z3.Or([st == z3.StringVal(n) for n in names])
            if not self.path.branch(hit):
                self.raise_builtin("KeyError", node)
            out = self.enum_const(ci, names[-1])
            for n in reversed(names[:-1]):
                out = z3.If(st == z3.StringVal(n), self.enum_const(ci, n), out)
            return EnumVal(ci, z3.simplify(out))
        if isinstance(obj, (ExtV, ClassV)):
            return obj  # generic alias e.g. RetryOutcome[T]
        raise Unsupported(f"getitem({obj!r})")

    def dict_key(self, k):
        """hashable python key for a concrete dict key (str/int or a concrete enum member)"""
        if isinstance(k, (str, int)):
            return k
        if isinstance(k, EnumVal):
            n = self.enum_concrete_name(k)
            if n is not None:
                return ("E", k.cls.name, n)
        return None

    def enummap_get(self, m: EnumMap, key, subscript=False, default=None, node=None):
        key = self.force(key)
        if not isinstance(key, EnumVal) or key.cls != m.cls:
            raise Unsupported("EnumMap key")
        names = [n for n, _ in m.cls.enum_members]
        # concrete key?
        for n in names:
            if z3.is_true(z3.simplify(key.t == self.enum_const(m.cls, n))):
                return self._slot_read(m, n, subscript, default, node)
        # symbolic: try merging, otherwise fork over members
        try:
            vals = [self._slot_read(m, n, subscript, default, node, pure=True) for n in names]
            out = vals[-1]
            for n, v in zip(reversed(names[:-1]), reversed(vals[:-1])):
                out = ops.merge(key.t == self.enum_const(m.cls, n), v, out)
            return out
        except Unsupported:
            for n in names:
                if self.path.branch(key.t == self.enum_const(m.cls, n)):
                    return self._slot_read(m, n, subscript, default, node)
            raise PathEnd("enum exhausted")

    def _slot_read(self, m, n, subscript, default, node, pure=False):
        v = m.slots.get(n, UNDEF)
        if isinstance(v, SOpt) and not subscript and default is not None:
            # dict.get(key, default): an absent key yields the default
            if pure:
                raise Unsupported("get with default over optional slot")
            if self.path.branch(v.none):
                return default
            return v.val
        if v is UNDEF:
            if subscript:
                if m.defaultdict:
                    return 0
                if pure:
                    raise Unsupported("missing key")
                self.raise_builtin("KeyError", node)
            return default
        return v

    def enummap_set(self, m: EnumMap, key, value):
        key = self.force(key)
        if not isinstance(key, EnumVal):
            raise Unsupported("EnumMap key")
        names = [n for n, _ in m.cls.enum_members]
        for n in names:
            if z3.is_true(z3.simplify(key.t == self.enum_const(m.cls, n))):
                m.slots[n] = value
                return
        for n in names:
            old = m.slots.get(n, 0 if m.defaultdict else UNDEF)
            if old is UNDEF:
                raise Unsupported("symbolic store into partial EnumMap")
            m.slots[n] = ops.merge(key.t == self.enum_const(m.cls, n), value, old)

    # ------------------------------------------------------------------ enums
    def enum_sort(self, ci):
        if ci.key not in self._enum_sorts:
            names = [n for n, _ in ci.enum_members]
            from .excs import _enum_sort_cached
            sort, consts = _enum_sort_cached(f"E_{ci.name}", [f"{ci.name}.{n}" for n in names])
            self._enum_sorts[ci.key] = (sort, dict(zip(names, consts)))
        return self._enum_sorts[ci.key]

    def enum_const(self, ci, name):
        return self.enum_sort(ci)[1][name]

    def enum_member(self, ci, name):
        return EnumVal(ci, self.enum_const(ci, name))

    def enum_concrete_name(self, ev: EnumVal):
        for n, c in self.enum_sort(ev.cls)[1].items():
            if z3.is_true(z3.simplify(ev.t == c)):
                return n
        return None

    def enum_values(self, ci):
        """member name -> python value (auto() numbered from 1)."""
        out = {}
        auto_n = 0
        for n, vnode in ci.enum_members:
            if isinstance(vnode, ast.Call):
                auto_n += 1
                out[n] = auto_n
            else:
                out[n] = ast.literal_eval(vnode)
        return out

    def enum_is_str(self, ci):
        return any(isinstance(b, ast.Name) and b.id == "str" for b in ci.bases)

    def enum_value_term(self, ev: EnumVal):
        vals = self.enum_values(ev.cls)
        names = list(vals)
        strs = all(isinstance(v, str) for v in vals.values())
        out = z3.StringVal(vals[names[-1]]) if strs else z3.IntVal(vals[names[-1]])
        for n in reversed(names[:-1]):
            c = z3.StringVal(vals[n]) if strs else z3.IntVal(vals[n])
            out = z3.If(ev.t == self.enum_const(ev.cls, n), c, out)
        return z3.simplify(out)

    def fresh_enum(self, ci, prefix="e"):
        sort, _ = self.enum_sort(ci)
        return EnumVal(ci, z3.Const(fresh_name(prefix), sort))

    # ------------------------------------------------------------------ getattr
    def getattr_value(self, obj, attr, node=None, default=UNDEF):
        obj = self.force(obj)
        if isinstance(obj, tuple) and len(obj) == 2 and obj[0] == "typeof":
            if attr == "__name__":
                inner = obj[1]
                cache = self.path.ghost.setdefault("typename", {})
                if id(inner) not in cache:
                    cache[id(inner)] = Sym(z3.String(fresh_name("typename")), "str")
                return cache[id(inner)]
            raise Unsupported(f"type(...).{attr}")
        if obj is None:
            if default is not UNDEF:
                return default
            self.raise_builtin("AttributeError", node)
        if isinstance(obj, Obj):
            if attr in obj.fields:
                for h in self.field_hooks:
                    h(self, obj, attr, "read", node)
                fv = obj.fields[attr]
                if isinstance(fv, Absentable):
                    if self.path.branch(fv.absent):
                        if default is not UNDEF:
                            return default
                        self.raise_builtin("AttributeError", node)
                    return fv.val
                return fv
            if obj.cls is not None:
                meth = self.tree.find_method(obj.cls, attr)
                if meth is not None:
                    if any(isinstance(d, ast.Name) and d.id == "property" for d in meth.decorators):
                        return self.call_function(FuncV(meth), [obj], {})
                    if any(isinstance(d, ast.Name) and d.id == "classmethod" for d in meth.decorators):
                        return BoundV(ClassV(obj.cls), FuncV(meth))
                    if any(isinstance(d, ast.Name) and d.id == "staticmethod" for d in meth.decorators):
                        return FuncV(meth)
                    return BoundV(obj, FuncV(meth))
                for c in self.tree.mro(obj.cls):
                    if attr in c.class_attrs and c.class_attrs[attr] is not None:
                        return self.eval(c.class_attrs[attr], Env(None, c.module))
            h = self.attr_models.get(attr)
            if h is not None:
                return h(self, obj, attr, node)
            if attr == "__dict__":
                return dict(obj.fields)  # read-only use (`self.__dict__.get(name)`); writes through it are outside the subset
            if obj.cls is not None and not attr.startswith("__"):
                ga = self.tree.find_method(obj.cls, "__getattr__")
                if ga is not None and not getattr(self, "_in_getattr", False):
                    # __getattr__ is consulted only after normal lookup failed; AttributeError from it means "no such attribute"
                    self._in_getattr = True
                    try:
                        try:
                            return self.call_function(FuncV(ga), [obj, attr], {}, node)
                        except PyRaise as e:
                            if default is not UNDEF and e.exc.cls_t is not None and z3.is_true(z3.simplify(
                                    self.lattice.isinstance_cond(e.exc.cls_t, AttributeError))):
                                return default
                            raise
                    finally:
                        self._in_getattr = False
            if attr == "args" and obj.cls is None and obj.cls_t is not None:
                return OpaqueArgs(obj)
            if default is not UNDEF:
                return default
            raise Unsupported(f"attribute {attr} of {obj!r}")
        if isinstance(obj, EnumVal):
            if attr == "value":
                t = self.enum_value_term(obj)
                if z3.is_string_value(t):
                    return t.as_string()
                if z3.is_int_value(t):
                    return t.as_long()
                return Sym(t, "str" if t.sort() == z3.StringSort() else "int")
            if attr == "name":
                n = self.enum_concrete_name(obj)
                if n is not None:
                    return n
                names = [n for n, _ in obj.cls.enum_members]
                out = z3.StringVal(names[-1])
                for n in reversed(names[:-1]):
                    out = z3.If(obj.t == self.enum_const(obj.cls, n), z3.StringVal(n), out)
                return Sym(out, "str")
            raise Unsupported(f"enum attr {attr}")
        if isinstance(obj, ClassV):
            ci = obj.info
            if ci.is_enum:
                for n, _ in ci.enum_members:
                    if n == attr:
                        return self.enum_member(ci, n)
            meth = self.tree.find_method(ci, attr)
            if meth is not None:
                if any(isinstance(d, ast.Name) and d.id == "classmethod" for d in meth.decorators):
                    return BoundV(obj, FuncV(meth))
                return FuncV(meth)
            if attr == "__name__":
                return ci.name
            raise Unsupported(f"class attr {ci.name}.{attr}")
        if isinstance(obj, ModuleV):
            if obj.internal:
                r = self.tree.resolve_name(self.tree.modules[obj.name], attr)
                if r is None:
                    sub = f"{obj.name}.{attr}"
                    if sub in self.tree.modules:
                        return ModuleV(sub, True)
                    raise Unsupported(f"{obj.name}.{attr}")
                return self.value_of_resolution(r)
            return ExtV(f"{obj.name}.{attr}")
        if isinstance(obj, ExtV):
            full = f"{obj.name}.{attr}"
            if full in EXT_CONSTANTS:
                return EXT_CONSTANTS[full]
            return ExtV(full)
        if isinstance(obj, TimeDelta):
            if attr == "total_seconds":
                return MethodRef(obj, attr)
            if attr in ("days", "seconds", "microseconds"):
                # normalised representation: days = floor(s / 86400), 0 <= seconds < 86400, 0 <= microseconds < 10**6
                whole = z3.ToInt(obj.s)
                days = whole / 86400  # z3 integer division floors for a positive divisor
                if attr == "days":
                    return wrap_int(days)
                if attr == "seconds":
                    return wrap_int(whole - days * 86400)
                return wrap_int(z3.ToInt((obj.s - z3.ToReal(whole)) * 1000000))
        if isinstance(obj, (DequeV, EnumMap, EnumSet, dict, list, str, LockV)) or (isinstance(obj, Sym) and obj.ty == "str"):
            return MethodRef(obj, attr)
        if isinstance(obj, EnvFn):
            if attr in obj.attrs:
                return obj.attrs[attr]
            h = self.envfn_attr_models.get(obj.tag)
            if h is not None:
                return h(self, obj, attr, default)
            if default is not UNDEF:
                return default
            raise Unsupported(f"attr {attr} of {obj!r}")
        if isinstance(obj, AnyV):
            return self.any_getattr(obj, attr, default, node)
        if isinstance(obj, (FuncV, LambdaV, BoundV)):
            if attr == "__name__":
                return Sym(z3.String(fresh_name("fname")), "str")
        if default is not UNDEF:
            return default
        raise Unsupported(f"getattr({obj!r}, {attr})")

    def e_Await(self, node, env):
        v = self.eval(node.value, env)
        return self.await_value(v, node)

    def e_Starred(self, node, env):
        raise Unsupported("starred")

    def e_GeneratorExp(self, node, env):
        return GenExp(node, env)

    def e_DictComp(self, node, env):
        if len(node.generators) != 1:
            raise Unsupported("nested dict comprehension")
        g = node.generators[0]
        pairs = []
        for item in self.iterate(self.eval(g.iter, env)):
            sub = Env(env.func, env.module, parent=env)
            self.assign_target(g.target, item, sub)
            if all(self.is_true(self.eval(c, sub)) for c in g.ifs):
                pairs.append((self.eval(node.key, sub), self.eval(node.value, sub)))
        if pairs and all(isinstance(k, EnumVal) for k, _ in pairs) and len({k.cls.key for k, _ in pairs}) == 1:
            names = [self.enum_concrete_name(k) for k, _ in pairs]
            if all(n is not None for n in names):
                return EnumMap(pairs[0][0].cls, dict(zip(names, (v for _, v in pairs))))
        out = {}
        for k, v in pairs:
            kk = self.dict_key(k)
            if kk is None:
                raise Unsupported("dict comprehension key")
            out[kk] = v
        return out

    def e_ListComp(self, node, env):
        return list(self.run_comprehension(node, env))

    def run_comprehension(self, node, env):
        if len(node.generators) != 1:
            raise Unsupported("nested comprehension")
        g = node.generators[0]
        it = self.eval(g.iter, env)
        out = []
        for item in self.iterate(it):
            sub = Env(env.func, env.module, parent=env)
            self.assign_target(g.target, item, sub)
            ok = True
            for cond in g.ifs:
                if not self.is_true(self.eval(cond, sub)):
                    ok = False
                    break
            if ok:
                out.append(self.eval(node.elt, sub))
        return out

    def lazy_iterate(self, v):
        """elements one at a time; for a generator expression each element is evaluated only when asked for"""
        if isinstance(v, GenExp):
            node, env = v.node, v.env
            if len(node.generators) != 1:
                raise Unsupported("nested comprehension")
            g = node.generators[0]
            src = v.pre_iter if getattr(v, "pre_iter", None) is not None else self.eval(g.iter, env)
            for item in self.iterate(src):
                sub = Env(env.func, env.module, parent=env)
                self.assign_target(g.target, item, sub)
                if all(self.is_true(self.eval(c, sub)) for c in g.ifs):
                    yield self.eval(node.elt, sub)
            return
        yield from self.iterate(v)

    def iterate(self, v):
        if isinstance(v, PySet):
            return list(v.items)
        if isinstance(v, SeqV):
            raise Unsupported("iteration over a symbolic sequence outside a for-loop with invariant")
        if isinstance(v, (tuple, list)):
            return list(v)
        if isinstance(v, dict):
            return list(v.keys())
        if isinstance(v, EnumMap):  # iteration over a dict = over its keys (members in definition order; symbolic presence forks)
            return [k for k, _ in self.call_method(v, "items", [], {}, None)]
        if isinstance(v, GenExp):
            return self.run_comprehension(v.node, v.env)
        raise Unsupported(f"iterate({v!r})")
